---- MODULE Lexer_recogniser_probe ----
EXTENDS Json, TLC, Sequences, Integers, FiniteSets
Trace == ndJsonDeserialize("s.ndjson")
IsSpace(c) == c \in {" ", "\n"}
IsDigit(c) == c \in {"0","1","7"}
SymStop(c) == c \in {"/","[","_",";","="} \/ IsSpace(c)
MetaStop(c) == c \in {"{","}","=",","}
Single == [x \in {"C","R","/","[","]","{","}","=",",","#","b","_"} |->
            CASE x = "C" -> "SYL" [] x = "R" -> "REST" [] x = "/" -> "SLASH" [] x = "[" -> "LBRA" [] x = "]" -> "RBRA"
              [] x = "{" -> "LCBRA" [] x = "}" -> "RCBRA" [] x = "=" -> "EQ" [] x = "," -> "COMMA" [] x = "#" -> "SHARP"
              [] x = "b" -> "FLAT" [] x = "_" -> "US"]
RECURSIVE RunEnd(_, _, _), Lex(_, _, _, _, _)
\* first index >= p where stop holds (or Len+1)
RunEnd(s, p, kind) == IF p > Len(s) THEN p
                      ELSE IF (kind = "sym" /\ SymStop(s[p])) \/ (kind = "meta" /\ MetaStop(s[p])) \/ (kind = "dig" /\ ~IsDigit(s[p])) \/ (kind = "cmt" /\ s[p] = "\n") \/ (kind = "sp" /\ ~IsSpace(s[p]))
                           THEN p ELSE RunEnd(s, p + 1, kind)
\* returns token-type sequence, or <<"ERR">> appended on lexical error
Lex(s, p0, sym, meta, acc) ==
  LET p == RunEnd(s, p0, "sp") IN
  IF p > Len(s) THEN (IF sym THEN Append(acc, "ERR") ELSE acc)
  ELSE LET c == s[p] IN
    IF meta /\ ~MetaStop(c) THEN Lex(s, RunEnd(s, p, "meta"), sym, meta, Append(acc, "META"))
    ELSE IF sym THEN (IF ~SymStop(c) THEN Lex(s, RunEnd(s, p, "sym"), FALSE, meta, Append(acc, "SYM")) ELSE Append(acc, "ERR"))
    ELSE IF c = ";" THEN Lex(s, RunEnd(s, p, "cmt"), sym, meta, acc)
    ELSE IF c \in DOMAIN Single THEN Lex(s, p + 1, c = "_", IF c = "{" THEN TRUE ELSE IF c = "}" THEN FALSE ELSE meta, Append(acc, Single[c]))
    ELSE IF IsDigit(c) THEN Lex(s, RunEnd(s, p, "dig"), sym, meta, Append(acc, "NUM"))
    ELSE Lex(s, RunEnd(s, p, "sym"), sym, meta, Append(acc, "SYM"))
\* regular recogniser over tokens: DFA as a transition function
Delta(q, t) ==
  CASE q = "S"  /\ t \in {"SYL","NUM"} -> "H"   [] q = "S" /\ t = "REST" -> "RB"
    [] q = "H"  /\ t \in {"SHARP","FLAT"} -> "A" [] q \in {"H","A"} /\ t = "SYM" -> "Y" [] q \in {"H","A"} /\ t = "US" -> "U"
    [] q = "U"  /\ t = "SYM" -> "Y"
    [] q \in {"H","A","Y"} /\ t = "SLASH" -> "B" [] q = "B" /\ t \in {"SYL","NUM"} -> "BH" [] q = "BH" /\ t \in {"SHARP","FLAT"} -> "BA"
    [] q \in {"H","A","Y","BH","BA","RB"} /\ t = "LBRA" -> "V0"
    [] q = "V0" /\ t = "NUM" -> "V1" [] q = "V1" /\ t = "SLASH" -> "V2" [] q = "V2" /\ t = "NUM" -> "V3"
    [] q \in {"V1","V3"} /\ t = "COMMA" -> "V0" [] q \in {"V1","V3"} /\ t = "RBRA" -> "E"
    [] q = "E" /\ t = "LCBRA" -> "M0" [] q = "M0" /\ t = "META" -> "M1" [] q = "M1" /\ t = "EQ" -> "M2" [] q = "M2" /\ t = "META" -> "M3"
    [] q = "M3" /\ t = "COMMA" -> "M0" [] q = "M3" /\ t = "RCBRA" -> "F"
    [] q \in {"E","F"} /\ t \in {"SYL","NUM"} -> "H" [] q \in {"E","F"} /\ t = "REST" -> "RB"
    [] OTHER -> "X"
RECURSIVE Run(_, _)
Run(q, ts) == IF ts = <<>> THEN q ELSE Run(Delta(q, Head(ts)), Tail(ts))
Accepts(s) == Run("S", Lex(s, 1, FALSE, FALSE, <<>>)) \in {"E","F"}
VARIABLE l, nacc
Init == l = 0 /\ nacc = 0
Next == l < Len(Trace) /\ l' = l + 1 /\ nacc' = nacc + (IF Accepts(Trace[l+1].s) THEN 1 ELSE 0)
Inv == TRUE
====
