---- MODULE Grammar_probe ----
(* Feasibility probe cited in DESIGN.md A.2: enumerate the sentences of input/ast/chords.y up to L
   tokens by exploring leftmost derivations. Productions are hard-coded here; the real module loads
   them from JSON extracted from the grammar file. Measured: L=9 1335 forms, L=11 5813, L=13 28699 (3 s). *)
EXTENDS Sequences, Integers, TLC, FiniteSets
CONSTANT L
NT == {"result","chord_list","chord_or_rest","rest","chod","degree","degree_head","accidental","symbol","simple_symbol","base","values","value","meta","meta_internal","metadata"}
P == { <<"result", <<"chord_list">> >>,
  <<"chord_list", <<"chord_or_rest">> >>, <<"chord_list", <<"chord_list","chord_or_rest">> >>,
  <<"chord_or_rest", <<"rest">> >>, <<"chord_or_rest", <<"chod">> >>,
  <<"rest", <<"REST","LBRA","values","RBRA","meta">> >>,
  <<"chod", <<"degree","symbol","base","LBRA","values","RBRA","meta">> >>,
  <<"degree", <<"degree_head">> >>, <<"degree", <<"degree_head","accidental">> >>,
  <<"degree_head", <<"SYLLABLE">> >>, <<"degree_head", <<"NUMBER">> >>,
  <<"accidental", <<"SHARP">> >>, <<"accidental", <<"FLAT">> >>,
  <<"symbol", <<>> >>, <<"symbol", <<"simple_symbol">> >>, <<"symbol", <<"UNDERSCORE","simple_symbol">> >>,
  <<"simple_symbol", <<"SYMBOL">> >>,
  <<"base", <<>> >>, <<"base", <<"SLASH","degree">> >>,
  <<"values", <<"value">> >>, <<"values", <<"values","COMMA","value">> >>,
  <<"value", <<"NUMBER">> >>, <<"value", <<"NUMBER","SLASH","NUMBER">> >>,
  <<"meta", <<>> >>, <<"meta", <<"LCBRA","meta_internal","RCBRA">> >>,
  <<"meta_internal", <<"metadata">> >>, <<"meta_internal", <<"meta_internal","COMMA","metadata">> >>,
  <<"metadata", <<"METADATA","EQUAL","METADATA">> >> }
VARIABLE form
MinLen(x) == CASE x \in {"result","chord_list","chord_or_rest","chod","rest"} -> 4
   [] x \in {"degree","degree_head","accidental","simple_symbol","values","value"} -> 1
   [] x \in {"symbol","base","meta"} -> 0 [] x \in {"meta_internal","metadata"} -> 3 [] OTHER -> 1
RECURSIVE MinYield(_)
MinYield(s) == IF s = <<>> THEN 0 ELSE MinLen(Head(s)) + MinYield(Tail(s))
HasNT(s) == \E i \in 1..Len(s) : s[i] \in NT
FirstNT(s) == CHOOSE i \in 1..Len(s) : s[i] \in NT /\ \A j \in 1..(i-1) : s[j] \notin NT
Init == form = <<"result">>
Next == /\ HasNT(form)
        /\ LET i == FirstNT(form) IN
           \E p \in P : /\ p[1] = form[i]
                        /\ form' = SubSeq(form,1,i-1) \o p[2] \o SubSeq(form,i+1,Len(form))
                        /\ MinYield(form') <= L
Sentence == ~HasNT(form)
====
