---- MODULE SMF_bytes_probe ----
EXTENDS Json, TLC, Sequences, Integers, FiniteSets
Trace == ndJsonDeserialize("bytes.ndjson")
VARIABLES f, i, ph, k, fmt, ntrks, trk, rem, acc, vl, st, need, d1, mt, eot, open, bad
vars == <<f, i, ph, k, fmt, ntrks, trk, rem, acc, vl, st, need, d1, mt, eot, open, bad>>
Hdr == <<77, 84, 104, 100, 0, 0, 0, 6>>   \* "MThd" len 6
Chk == <<77, 84, 114, 107>>               \* "MTrk"
B == Trace[f].b
NeedOf(s) == IF (s \div 16) \in {12, 13} THEN 1 ELSE 2       \* program change / channel pressure: 1 data byte
RECURSIVE RemoveFirst(_, _)
RemoveFirst(s, x) == IF s = <<>> THEN <<>> ELSE IF Head(s) = x THEN Tail(s) ELSE <<Head(s)>> \o RemoveFirst(Tail(s), x)
In(s, x) == \E j \in 1..Len(s) : s[j] = x
Init == /\ f = 1 /\ i = 0 /\ ph = "hdr" /\ k = 0 /\ fmt = 0 /\ ntrks = 0 /\ trk = 0 /\ rem = 0 /\ acc = 0 /\ vl = 0
        /\ st = 0 /\ need = 0 /\ d1 = 0 /\ mt = 0 /\ eot = FALSE /\ open = <<>> /\ bad = ""
Fail(why) == bad' = why /\ UNCHANGED <<f, i, ph, k, fmt, ntrks, trk, rem, acc, vl, st, need, d1, mt, eot, open>>
\* after an event inside a chunk: either next delta, or chunk finished
AfterEvent(r, e) == IF r = 0 THEN (IF e THEN ph' = "chdr" /\ trk' = trk + 1 ELSE ph' = "bad") ELSE ph' = "delta" /\ trk' = trk
Step ==
  /\ bad = "" /\ f <= Len(Trace) /\ i < Len(B)
  /\ LET b == B[i + 1] IN
     /\ i' = i + 1 /\ f' = f /\ bad' = bad
     /\ CASE ph = "hdr" ->
              /\ (k < 8 => b = Hdr[k + 1])
              /\ fmt' = IF k = 9 THEN b ELSE fmt
              /\ (k = 8 => b = 0)
              /\ ntrks' = IF k = 10 THEN b * 256 ELSE IF k = 11 THEN ntrks + b ELSE ntrks
              /\ k' = IF k = 13 THEN 0 ELSE k + 1
              /\ ph' = IF k = 13 THEN "chdr" ELSE "hdr"
              /\ UNCHANGED <<trk, rem, acc, vl, st, need, d1, mt, eot, open>>
          [] ph = "chdr" ->
              /\ trk < ntrks
              /\ (k < 4 => b = Chk[k + 1])
              /\ acc' = IF k < 4 THEN 0 ELSE acc * 256 + b
              /\ k' = IF k = 7 THEN 0 ELSE k + 1
              /\ ph' = IF k = 7 THEN "delta" ELSE "chdr"
              /\ rem' = IF k = 7 THEN acc * 256 + b ELSE rem
              /\ (k = 7 => acc * 256 + b > 0)
              /\ vl' = 0 /\ st' = 0 /\ eot' = FALSE /\ open' = <<>>
              /\ UNCHANGED <<fmt, ntrks, trk, need, d1, mt>>
          [] ph = "delta" ->
              /\ rem > 0 /\ ~eot /\ vl < 4
              /\ rem' = rem - 1
              /\ IF b >= 128 THEN acc' = (IF vl = 0 THEN 0 ELSE acc) * 128 + (b - 128) /\ vl' = vl + 1 /\ ph' = "delta"
                             ELSE acc' = 0 /\ vl' = 0 /\ ph' = "status"
              /\ UNCHANGED <<k, fmt, ntrks, trk, st, need, d1, mt, eot, open>>
          [] ph = "status" ->
              /\ rem > 0 /\ rem' = rem - 1
              /\ IF b = 255 THEN ph' = "mtype" /\ st' = 0 /\ need' = 0 /\ d1' = d1
                 ELSE IF b >= 128 /\ b < 240 THEN ph' = "data" /\ st' = b /\ need' = NeedOf(b) /\ d1' = d1
                 ELSE /\ b < 128 /\ st # 0              \* running status: this byte is the first data byte
                      /\ st' = st /\ d1' = b
                      /\ IF NeedOf(st) = 1 THEN need' = 0 /\ AfterEvent(rem - 1, FALSE) ELSE need' = 1 /\ ph' = "data"
              /\ (b = 255 \/ (b >= 128 /\ b < 240) \/ NeedOf(st) = 2 => trk' = trk)
              /\ UNCHANGED <<k, fmt, ntrks, acc, vl, mt, eot, open>>
          [] ph = "data" ->
              /\ rem > 0 /\ b < 128 /\ rem' = rem - 1
              /\ IF need = 2 THEN d1' = b /\ need' = 1 /\ ph' = "data" /\ open' = open /\ trk' = trk
                 ELSE /\ need' = 0 /\ d1' = d1
                      /\ LET kind == st \div 16   key == <<st % 16, d1>> IN
                         open' = IF kind = 9 /\ b > 0 THEN Append(open, key)
                                 ELSE IF kind = 8 \/ (kind = 9 /\ b = 0) THEN RemoveFirst(open, key) ELSE open
                      /\ ((st \div 16) = 8 \/ ((st \div 16) = 9 /\ b = 0) => In(open, <<st % 16, d1>>))   \* off matches an on
                      /\ AfterEvent(rem - 1, FALSE)
              /\ UNCHANGED <<k, fmt, ntrks, acc, vl, st, mt, eot>>
          [] ph = "mtype" ->
              /\ rem > 0 /\ b < 128 /\ rem' = rem - 1 /\ mt' = b /\ ph' = "mlen" /\ acc' = 0 /\ vl' = 0
              /\ (b \in {81, 88, 89} => trk = 0)                       \* tempo / time sig / key sig only in first track
              /\ UNCHANGED <<k, fmt, ntrks, trk, st, need, d1, eot, open>>
          [] ph = "mlen" ->
              /\ rem > 0 /\ vl < 4 /\ rem' = rem - 1
              /\ IF b >= 128 THEN acc' = acc * 128 + (b - 128) /\ vl' = vl + 1 /\ ph' = "mlen" /\ eot' = eot /\ trk' = trk
                 ELSE LET n == acc * 128 + b IN
                      /\ (mt = 47 => n = 0) /\ (mt = 81 => n = 3) /\ (mt = 88 => n = 4) /\ (mt = 89 => n = 2)
                      /\ eot' = (mt = 47) /\ (mt = 47 => open = <<>>)
                      /\ acc' = n /\ vl' = 0
                      /\ IF n = 0 THEN AfterEvent(rem - 1, mt = 47) ELSE ph' = "mdata" /\ trk' = trk
              /\ UNCHANGED <<k, fmt, ntrks, st, need, d1, mt, open>>
          [] ph = "mdata" ->
              /\ rem > 0 /\ rem' = rem - 1 /\ acc' = acc - 1
              /\ IF acc = 1 THEN AfterEvent(rem - 1, FALSE) ELSE ph' = "mdata" /\ trk' = trk
              /\ UNCHANGED <<k, fmt, ntrks, vl, st, need, d1, mt, eot, open>>
          [] OTHER -> FALSE
Accept == ph = "chdr" /\ k = 0 /\ trk = ntrks /\ (fmt = 0 <=> ntrks = 1) /\ fmt \in {0, 1} /\ ntrks = Trace[f].ntr
NextFile == /\ bad = "" /\ f <= Len(Trace) /\ i = Len(B) /\ Accept
            /\ f' = f + 1 /\ i' = 0 /\ ph' = "hdr" /\ k' = 0 /\ fmt' = 0 /\ ntrks' = 0 /\ trk' = 0 /\ rem' = 0 /\ acc' = 0 /\ vl' = 0
            /\ st' = 0 /\ need' = 0 /\ d1' = 0 /\ mt' = 0 /\ eot' = FALSE /\ open' = <<>> /\ bad' = ""
Next == Step \/ NextFile
AllAccepted == f = Len(Trace) + 1
Done == TLCGet("stats").diameter >= 0
Post == TLCSet(1, TRUE)
Stuck == ~ENABLED Next => f = Len(Trace) + 1       \* a stuck state before the end = the byte that is rejected
====
