---- MODULE TrackSet_probe ----
(* Feasibility probe cited in DESIGN.md 2.1 / A.5: midix writer pending delta + per-track pending delay.
   BuggyClose = FALSE: ClockInv/TotalInv/EOTInv hold (N=3, MaxCalls=5, Durs={1,2}: 6588 distinct states, 1 s).
   BuggyClose = TRUE ("what the code does": one shared op, pending rest ignored): EOTInv fails after Rest; Close. *)
EXTENDS Sequences, Integers, TLC, FiniteSets
CONSTANTS N, MaxCalls, Durs, BuggyClose
Tracks == 0..(N-1)
VARIABLES wpend, tpend, ops, clock, calls, closed, total
Sel(i) == IF N = 1 THEN 0 ELSE (i % (N-1)) + 1
AddF(st, t, d, e) == [ tp |-> [u \in Tracks |-> IF u = t THEN 0 ELSE st.tp[u] + d],
                       op |-> [st.op EXCEPT ![t] = Append(@, [d |-> d + st.tp[t], e |-> e])],
                       ck |-> st.ck + d ]
St == [tp |-> tpend, op |-> ops, ck |-> clock]
Set(st) == /\ tpend' = st.tp /\ ops' = st.op /\ clock' = st.ck
Init == /\ wpend = 0 /\ tpend = [t \in Tracks |-> 0] /\ ops = [t \in Tracks |-> <<>>]
        /\ clock = 0 /\ calls = 0 /\ closed = FALSE /\ total = 0
Meta == /\ ~closed /\ calls < MaxCalls
        /\ Set(AddF(St, 0, wpend, "meta")) /\ wpend' = 0 /\ calls' = calls + 1
        /\ UNCHANGED <<closed, total>>
Rest == \E k \in Durs : /\ ~closed /\ calls < MaxCalls /\ wpend' = wpend + k /\ calls' = calls + 1
        /\ total' = total + k /\ UNCHANGED <<tpend, ops, clock, closed>>
Note == \E k \in Durs : /\ ~closed /\ calls < MaxCalls
        /\ LET s1 == AddF(St, Sel(0), wpend, "on0")
               s2 == AddF(s1, Sel(1), 0, "on1")
               s3 == AddF(s2, Sel(0), k, "off0")
               s4 == AddF(s3, Sel(1), 0, "off1") IN Set(s4)
        /\ wpend' = 0 /\ calls' = calls + 1 /\ total' = total + k /\ UNCHANGED closed
RECURSIVE CloseShared(_, _, _)
CloseShared(st, t, d) == IF t = N THEN [st |-> st, d |-> d]
   ELSE LET nd == d + st.tp[t] IN
        CloseShared([tp |-> [u \in Tracks |-> IF u = t THEN 0 ELSE st.tp[u] + d],
                     op |-> [st.op EXCEPT ![t] = Append(@, [d |-> -1, e |-> "eot"])], ck |-> st.ck + d], t+1, nd)
Close == /\ ~closed /\ closed' = TRUE
         /\ IF BuggyClose
            THEN LET r == CloseShared(St, 0, 0) IN
                 /\ ops' = [t \in Tracks |-> [i \in 1..Len(r.st.op[t]) |-> IF r.st.op[t][i].e = "eot" THEN [d |-> r.d, e |-> "eot"] ELSE r.st.op[t][i]]]
                 /\ tpend' = r.st.tp /\ clock' = r.st.ck /\ wpend' = wpend
            ELSE /\ ops' = [t \in Tracks |-> Append(ops[t], [d |-> tpend[t] + wpend, e |-> "eot"])]
                 /\ tpend' = [t \in Tracks |-> 0] /\ clock' = clock + wpend /\ wpend' = 0
         /\ UNCHANGED <<calls, total>>
Next == Meta \/ Rest \/ Note \/ Close
RECURSIVE Sum(_)
Sum(s) == IF s = <<>> THEN 0 ELSE Head(s).d + Sum(Tail(s))
ClockInv == ~closed => \A t \in Tracks : Sum(ops[t]) + tpend[t] = clock
TotalInv == ~closed => clock + wpend = total
EOTInv == closed => \A t \in Tracks : Sum(ops[t]) = total
====
