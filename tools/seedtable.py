#!/usr/bin/env python3
"""Writes /verif/seeded/INDEX.md from the meta.json files (one row per confirmed seeded change)."""
import glob
import json
import os
import re

rows = []
for d in sorted(glob.glob("/verif/seeded/*/")):
    try:
        m = json.load(open(d + "meta.json"))
    except Exception:
        continue
    name = os.path.basename(d.rstrip("/"))
    summ = re.sub(r"\s+", " ", (m.get("summary") or "").replace("|", "/"))[:220]
    needs = re.sub(r"\s+", " ", (m.get("needs") or "").replace("|", "/"))[:200]
    caught = ", ".join(k for k, v in m.get("checks", {}).items() if v.get("rc") == 1) or "-"
    rc = m.get("recheck") or {}
    if rc.get("applies") is False:
        re_s = "stale (lines rewritten by a later fix)"
    elif rc:
        re_s = ", ".join(k for k, v in rc.get("checks", {}).items() if v == 1) or "NOT caught"
        if re_s == "NOT caught" and m.get("not_caught_reason"):
            re_s = "not reported: " + re.sub(r"\s+", " ", m["not_caught_reason"].replace("|", "/"))[:260]
        elif m.get("stale"):
            re_s = "stale"
    else:
        re_s = ""
    rows.append("| `%s` | %s | %s | %s | %s |" % (name, summ, needs, caught, re_s))
with open("/verif/seeded/INDEX.md", "w") as f:
    f.write("# Seeded changes (produced by independent sub-agents, confirmed by tools/seedeval.py)\n\n"
            "Each directory holds `patch.diff`, `demo.sh` (fails with the change, passes without) and `meta.json` (what was run).\n"
            "`caught by` = checks that reported a VIOLATION when the change was evaluated; `re-check` = result of tools/seedrecheck.py "
            "against the checks as they stand now.\n\n"
            "| seeded change | what was changed | what it needs to manifest | caught by | re-check |\n|---|---|---|---|---|\n")
    f.write("\n".join(rows) + "\n")
print(len(rows), "rows")
