#!/usr/bin/env python3
"""Re-run the owning check of every confirmed seeded change in /verif/seeded against the checks as they are now.

  tools/seedrecheck.py [name-prefix ...]       e.g.  tools/seedrecheck.py C02 C06-r2

For each /verif/seeded/<name>/patch.diff: apply it in a scratch worktree of /repo (never /repo itself), run
./check <property> quick with VERIF_REPO pointing there, record the outcome under "recheck" in meta.json.
Prints one line per change; exit 1 if some change is no longer caught.
"""
import json
import os
import shutil
import subprocess
import sys
import tempfile

ENV = dict(os.environ, GOFLAGS="-mod=mod", GOPROXY="off")
ENV.pop("GOTOOLCHAIN", None)
ENV.pop("GOSUMDB", None)


def main():
    prefixes = sys.argv[1:]
    missed = 0
    for name in sorted(os.listdir("/verif/seeded")):
        if prefixes and not any(name.startswith(p) for p in prefixes):
            continue
        d = os.path.join("/verif/seeded", name)
        meta = json.load(open(os.path.join(d, "meta.json")))
        if meta.get("stale"):
            print("%s skipped: marked stale (%s)" % (name, (meta.get("note") or "")[:80]), flush=True)
            continue
        prop = meta["property"]
        checks = [c for c, v in meta.get("checks", {}).items() if v.get("rc") == 1] or [prop]
        wt = tempfile.mkdtemp(prefix="seedre-")
        os.rmdir(wt)
        evd = tempfile.mkdtemp(prefix="seedev-")
        res = {}
        try:
            subprocess.run(["git", "-C", "/repo", "worktree", "add", "--detach", "-q", wt, "HEAD"], check=True)
            ap = subprocess.run(["git", "apply", os.path.join(d, "patch.diff")], cwd=wt)
            if ap.returncode != 0:
                meta["recheck"] = {"applies": False, "note": "no longer applies to /repo HEAD (the lines it changes were rewritten by a later fix: commit)"}
                json.dump(meta, open(os.path.join(d, "meta.json"), "w"), indent=1)
                print("%s stale: does not apply to HEAD any more" % name, flush=True)
                continue
            env = dict(ENV, VERIF_REPO=wt, VERIF_EVIDENCE_DIR=evd, VERIF_REPLAY_DIR=evd)
            for c in checks:
                p = subprocess.run(["./check", c, "quick"], cwd=os.environ.get("VERIF_HOME", "/verif"), env=env, stdout=subprocess.PIPE, stderr=subprocess.STDOUT, timeout=3600)
                res[c] = p.returncode
        finally:
            subprocess.run(["git", "-C", "/repo", "worktree", "remove", "--force", wt])
            shutil.rmtree(wt, ignore_errors=True)
            shutil.rmtree(evd, ignore_errors=True)
        caught = any(rc == 1 for rc in res.values())
        meta["recheck"] = {"checks": res, "caught": caught}
        json.dump(meta, open(os.path.join(d, "meta.json"), "w"), indent=1)
        print("%s caught=%s %s" % (name, caught, res), flush=True)
        if not caught:
            missed += 1
    return 1 if missed else 0


if __name__ == "__main__":
    sys.exit(main())
