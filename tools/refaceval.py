#!/usr/bin/env python3
"""Behaviour-preserving changes (produced by independent sub-agents) must not be flagged by any check.

  tools/refaceval.py <N> [rK ...] [--src DIR] [--prefix P] [--only C01,C02] [--notests]
                                                               reads DIR/<N>/rK.diff (default /tmp/refac/out)

Applies each change in a scratch worktree of /repo, confirms it compiles (also with -tags verif) and passes the
existing tests, then runs EVERY check's quick tier against it (VERIF_REPO). Stores patch + outcome under
/verif/refactorings/<N>-rK/. A VIOLATION here is a false alarm of the machinery (or the change is not
behaviour-preserving after all -- to be decided by reading the replay).
"""
import json
import os
import shutil
import subprocess
import sys
import tempfile

ENV = dict(os.environ, GOFLAGS="-mod=mod", GOPROXY="off")
ENV.pop("GOTOOLCHAIN", None)
ENV.pop("GOSUMDB", None)
ALL = ["C%02d" % i for i in range(1, 18)]


def sh(cmd, cwd=None, timeout=1800, env=ENV):
    p = subprocess.run(cmd, cwd=cwd, env=env, stdout=subprocess.PIPE, stderr=subprocess.STDOUT, timeout=timeout)
    return p.returncode, p.stdout.decode("utf-8", "replace")


BY_PACKAGE = [
    (("midix/", "play/"), "C01 C02 C06 C07 C08 C10 C12 C16 C17"),
    (("input/", "astconv/"), "C03 C04 C05 C09 C10 C11 C12 C17"),
    (("cmd/io.go", "cmd/root.go", "cmd/flag.go", "cmd/main.go", "util/"), "C04 C09 C10 C12 C15 C16"),
    (("cmd/write.go", "cmd/text.go"), "C01 C07 C09 C10 C12"),
    (("note/", "op/", "chord/", "desc/", "cmd/info.go", "cmd/gen.go"), "C01 C03 C05 C07 C13 C14 C15 C16 C17"),
]


def touched_checks(diff):
    out = set()
    for line in open(diff, errors="replace"):
        if line.startswith("+++ ") and "/" in line:
            path = line[4:].split()[0].split("/", 1)[1]          # without the first component (b/, repoA/, ...)
            for prefixes, checks in BY_PACKAGE:
                if path.startswith(prefixes):
                    out |= set(checks.split())
    return out


def main():
    args = sys.argv[1:]
    root, prefix = "/tmp/refac/out", ""
    if "--src" in args:
        i = args.index("--src"); root = args[i + 1]; del args[i:i + 2]
    if "--prefix" in args:          # stored as /verif/refactorings/<prefix><N>-rK
        i = args.index("--prefix"); prefix = args[i + 1]; del args[i:i + 2]
    only, notests = None, False
    if "--only" in args:            # comma list of checks to run (default: all 17)
        i = args.index("--only"); only = args[i + 1].split(","); del args[i:i + 2]
    auto = False
    if "--auto" in args:            # the checks that look at the packages a patch touches (union with --only)
        args.remove("--auto"); auto = True
    if "--notests" in args:         # property-preserving changes may move what /repo's unit tests pin: run the checks anyway
        args.remove("--notests"); notests = True
    sys.argv[1:] = args
    n = sys.argv[1]
    src = "%s/%s" % (root, n)
    n = prefix + n
    which = sys.argv[2:] or sorted(f[:-5] for f in os.listdir(src) if f.endswith(".diff"))
    for r in which:
        diff = os.path.join(src, r + ".diff")
        info = {}
        try:
            info = json.load(open(os.path.join(src, r + ".json")))
        except Exception:
            pass
        wt = tempfile.mkdtemp(prefix="refwt-")
        os.rmdir(wt)
        evd = tempfile.mkdtemp(prefix="refev-")
        res = {"summary": info.get("summary"), "why_safe": info.get("why_safe"), "observable_differences": info.get("observable_differences")}
        try:
            sh(["git", "-C", "/repo", "worktree", "add", "--detach", "-q", wt, "HEAD"])
            rc, out = sh(["git", "apply", diff], cwd=wt)
            res["applies"] = rc == 0
            rc, out = sh(["go", "build", "-tags", "verif", "./..."], cwd=wt)
            res["compiles_with_tag"] = rc == 0
            rc, out = sh(["go", "test", "-vet=off", "-count=1", "./..."], cwd=wt)
            res["tests_pass"] = rc == 0
            res["checks"] = {}
            if res["applies"] and res["compiles_with_tag"] and (res["tests_pass"] or notests):
                env = dict(ENV, VERIF_REPO=wt, VERIF_EVIDENCE_DIR=evd, VERIF_REPLAY_DIR=evd)
                todo = only or ALL
                if auto:
                    todo = sorted(set(only or []) | touched_checks(diff))
                for c in todo:
                    rc, out = sh(["./check", c, "quick"], cwd=os.environ.get("VERIF_HOME", "/verif"), env=env, timeout=3600)
                    lines = [l[:500] for l in out.splitlines() if l.startswith(("VIOLATION", "UNDECIDED", "MECHANISM-DRIFT", "violated:"))]
                    res["checks"][c] = {"rc": rc, "lines": lines[:6]}
                    if rc == 1:
                        for f in os.listdir(evd):
                            if f.startswith(c + "-") and f.endswith(".json"):
                                os.makedirs("/verif/refactorings/%s-%s" % (n, r), exist_ok=True)
                                shutil.copyfile(os.path.join(evd, f), "/verif/refactorings/%s-%s/%s" % (n, r, f))
        finally:
            sh(["git", "-C", "/repo", "worktree", "remove", "--force", wt])
            shutil.rmtree(wt, ignore_errors=True)
            shutil.rmtree(evd, ignore_errors=True)
        dst = "/verif/refactorings/%s-%s" % (n, r)
        os.makedirs(dst, exist_ok=True)
        shutil.copyfile(diff, os.path.join(dst, "patch.diff"))
        alarms = [c for c, v in res.get("checks", {}).items() if v["rc"] == 1]
        undec = [c for c, v in res.get("checks", {}).items() if v["rc"] == 2]
        drift = [c for c, v in res.get("checks", {}).items() if any(l.startswith("MECHANISM-DRIFT") for l in v["lines"])]
        res["alarms"], res["undecided"], res["drift"] = alarms, undec, drift
        try:                      # a hand-written note about this change survives a re-run
            prev = json.load(open(os.path.join(dst, "meta.json")))
            if prev.get("note"):
                res["note"] = prev["note"]
            for k in ("summary", "why_safe", "observable_differences"):
                res[k] = res.get(k) or prev.get(k)
        except Exception:
            pass
        json.dump(res, open(os.path.join(dst, "meta.json"), "w"), indent=1)
        print("%s-%s applies=%s tests=%s alarms=%s undecided=%s drift=%s" % (n, r, res.get("applies"), res.get("tests_pass"), alarms, undec, drift), flush=True)


if __name__ == "__main__":
    main()
