#!/usr/bin/env python3
"""chords.y -> productions JSON for Grammar.tla (the rules section only; semantic actions are dropped).

  yacc2json.py <chords.y> <out.json>
"""
import json
import re
import sys


def strip_actions(s):
    out, depth, i = [], 0, 0
    while i < len(s):
        c = s[i]
        if c == "{":
            depth += 1
        elif c == "}":
            depth -= 1
        elif depth == 0:
            out.append(c)
        i += 1
    return "".join(out)


def main():
    src = open(sys.argv[1]).read()
    parts = re.split(r"^%%\s*$", src, flags=re.M)
    decl, rules = parts[0], parts[1]
    tokens = re.findall(r"^%token\s*(?:<\w+>)?\s*(\w+)", decl, flags=re.M)
    rules = strip_actions(rules)
    rules = re.sub(r"/\*.*?\*/", "", rules, flags=re.S)
    rules = re.sub(r"//[^\n]*", "", rules)
    prods = []
    # a rule is  name ':' alt ('|' alt)*  and ends where the next  name ':'  starts
    heads = list(re.finditer(r"(\w+)\s*:", rules))
    for k, h in enumerate(heads):
        body = rules[h.end(): heads[k + 1].start() if k + 1 < len(heads) else len(rules)]
        body = body.strip().rstrip(";")
        for alt in body.split("|"):
            prods.append({"id": len(prods) + 1, "lhs": h.group(1), "rhs": alt.split()})
    json.dump({"start": prods[0]["lhs"], "tokens": tokens, "productions": prods}, open(sys.argv[2], "w"), indent=1)


if __name__ == "__main__":
    main()
