#!/usr/bin/env python3
"""Evaluate seeded defects produced by independent sub-agents.

  tools/seedeval.py <ID> [mutant ...] [--tier quick|thorough] [--checks C01,C02]

For each /tmp/seed/out/<ID>/mK.diff:
  1. confirm in a scratch worktree (outside /repo and /verif) that it applies, compiles, passes the existing
     test-suite, and that its demonstration passes on the clean build and fails on the mutant build;
  2. apply it to /repo, run ./check <ID> (and any extra checks), undo it straight afterwards;
  3. keep it as /verif/seeded/<ID>-mK/ (patch.diff, demo, meta.json) with what was observed.
"""
import json
import os
import shutil
import subprocess
import sys
import tempfile

ENV = dict(os.environ, GOFLAGS="-mod=mod", GOPROXY="off")
ENV.pop("GOTOOLCHAIN", None)
ENV.pop("GOSUMDB", None)


def sh(cmd, cwd=None, timeout=1800):
    p = subprocess.run(cmd, cwd=cwd, env=ENV, stdout=subprocess.PIPE, stderr=subprocess.STDOUT, timeout=timeout, shell=isinstance(cmd, str))
    return p.returncode, p.stdout.decode("utf-8", "replace")


def main():
    args = sys.argv[1:]
    tier = "quick"
    checks = None
    if "--tier" in args:
        i = args.index("--tier"); tier = args[i + 1]; del args[i:i + 2]
    if "--checks" in args:
        i = args.index("--checks"); checks = args[i + 1].split(","); del args[i:i + 2]
    srcroot, prefix = "/tmp/seed/out", ""
    if "--src" in args:
        i = args.index("--src"); srcroot = args[i + 1]; del args[i:i + 2]
    if "--prefix" in args:
        i = args.index("--prefix"); prefix = args[i + 1]; del args[i:i + 2]
    pid = args[0]
    src = "%s/%s" % (srcroot, pid)
    muts = args[1:] or sorted(f[:-5] for f in os.listdir(src) if f.endswith(".diff"))
    checks = checks or [pid]
    for m in muts:
        diff = os.path.join(src, m + ".diff")
        demo = os.path.join(src, m + "_demo.sh")
        meta_in = {}
        try:
            meta_in = json.load(open(os.path.join(src, m + ".json")))
        except Exception:
            pass
        rcb, base = sh("git -C /repo rev-parse --short HEAD")
        res = {"property": pid, "mutant": m, "base_commit": base.strip(), "summary": meta_in.get("summary"), "needs": meta_in.get("needs"), "agent_ran": meta_in.get("ran")}
        wt = tempfile.mkdtemp(prefix="seedwt-")
        os.rmdir(wt)
        try:
            sh(["git", "-C", "/repo", "worktree", "add", "--detach", "-q", wt, "HEAD"])
            rc, out = sh(["go", "build", "-o", wt + "/crd.clean", "./cmd"], cwd=wt)
            res["clean_build"] = rc == 0
            rc, out = sh(["git", "apply", diff], cwd=wt)
            res["applies"] = rc == 0
            rc, out = sh(["go", "build", "-o", wt + "/crd.mut", "./cmd"], cwd=wt)
            res["compiles"] = rc == 0
            rc, out = sh(["go", "test", "-vet=off", "-count=1", "./..."], cwd=wt)
            res["tests_pass"] = rc == 0
            if os.path.exists(demo):
                rc1, o1 = sh(["bash", demo, wt + "/crd.clean"], cwd=wt, timeout=300)
                rc2, o2 = sh(["bash", demo, wt + "/crd.mut"], cwd=wt, timeout=300)
                res["demo_clean_rc"], res["demo_mutant_rc"] = rc1, rc2
                res["demo_confirms"] = rc1 == 0 and rc2 != 0
            else:
                res["demo_confirms"] = None
        finally:
            sh(["git", "-C", "/repo", "worktree", "remove", "--force", wt])
            shutil.rmtree(wt, ignore_errors=True)
        res["confirmed"] = bool(res.get("applies") and res.get("compiles") and res.get("tests_pass") and res.get("demo_confirms"))
        res["checks"] = {}
        if res["confirmed"]:
            # same as: git -C /repo apply; ./check; git -C /repo checkout -- .  -- but on a scratch worktree via VERIF_REPO,
            # so that several mutants can be evaluated while /repo stays clean (the final confirmation uses /repo itself)
            wt2 = tempfile.mkdtemp(prefix="seedrun-")
            os.rmdir(wt2)
            sh(["git", "-C", "/repo", "worktree", "add", "--detach", "-q", wt2, "HEAD"])
            sh(["git", "apply", diff], cwd=wt2)
            evd = tempfile.mkdtemp(prefix="seedev-")
            env2 = dict(ENV, VERIF_REPO=wt2, VERIF_EVIDENCE_DIR=evd, VERIF_REPLAY_DIR=evd)
            try:
                for c in checks:
                    p = subprocess.run(["./check", c, tier], cwd=os.environ.get("VERIF_HOME", "/verif"), env=env2, stdout=subprocess.PIPE, stderr=subprocess.STDOUT, timeout=3600)
                    outc = p.stdout.decode("utf-8", "replace")
                    lines = [l for l in outc.splitlines() if l.startswith(("VIOLATION", "OK ", "UNDECIDED", "KNOWN-FINDING", "violated:"))]
                    res["checks"][c] = {"rc": p.returncode, "tier": tier, "lines": [l[:400] for l in lines]}
            finally:
                sh(["git", "-C", "/repo", "worktree", "remove", "--force", wt2])
                shutil.rmtree(wt2, ignore_errors=True)
                shutil.rmtree(evd, ignore_errors=True)
        caught = any(v["rc"] == 1 for v in res["checks"].values())
        res["caught"] = caught
        dst = "/verif/seeded/%s-%s%s" % (pid, prefix, m)
        if res["confirmed"]:
            os.makedirs(dst, exist_ok=True)
            shutil.copyfile(diff, os.path.join(dst, "patch.diff"))
            if os.path.exists(demo):
                shutil.copyfile(demo, os.path.join(dst, "demo.sh"))
            json.dump(res, open(os.path.join(dst, "meta.json"), "w"), indent=1)
        print("%s %s confirmed=%s caught=%s %s" % (pid, m, res["confirmed"], caught,
              {c: v["rc"] for c, v in res["checks"].items()}), flush=True)
        if not res["confirmed"]:
            print("   not confirmed:", {k: res.get(k) for k in ("applies", "compiles", "tests_pass", "demo_clean_rc", "demo_mutant_rc")})
    return 0


if __name__ == "__main__":
    sys.exit(main())
