#!/usr/bin/env python3
"""Re-create stored seeded patches that no longer apply to /repo HEAD (a later fix: commit rewrote neighbouring lines).

  tools/seedrebase.py [name ...]        default: every /verif/seeded/* whose patch does not apply

For each: find the newest /repo commit the patch applies to, commit it there in a scratch worktree, cherry-pick that
commit onto HEAD; when git merges it cleanly (and it still builds) the rebased diff replaces patch.diff (the old one is
kept as patch.orig.diff). Conflicts are reported and left for a manual re-creation.
"""
import json
import os
import subprocess
import sys
import tempfile

ENV = dict(os.environ, GOFLAGS="-mod=mod", GOPROXY="off")
G = ["git", "-c", "user.name=x", "-c", "user.email=x@x"]


def sh(cmd, cwd=None):
    p = subprocess.run(cmd, cwd=cwd, env=ENV, stdout=subprocess.PIPE, stderr=subprocess.STDOUT)
    return p.returncode, p.stdout.decode("utf-8", "replace")


def main():
    names = sys.argv[1:] or sorted(os.listdir("/verif/seeded"))
    head = sh(["git", "-C", "/repo", "rev-parse", "HEAD"])[1].strip()
    commits = sh(["git", "-C", "/repo", "log", "--format=%H"])[1].split()
    wt = tempfile.mkdtemp(prefix="seedrb-")
    os.rmdir(wt)
    sh(["git", "-C", "/repo", "worktree", "add", "--detach", "-q", wt, "HEAD"])
    try:
        for n in names:
            d = os.path.join("/verif/seeded", n)
            patch = os.path.join(d, "patch.diff")
            if not os.path.exists(patch):
                continue
            sh(G + ["checkout", "-q", "--detach", head], cwd=wt)
            sh(G + ["checkout", "-q", "--", "."], cwd=wt)
            if sh(["git", "apply", "--check", patch], cwd=wt)[0] == 0:
                continue
            base = None
            for c in commits:
                sh(G + ["checkout", "-q", "--detach", c], cwd=wt)
                if sh(["git", "apply", "--check", patch], cwd=wt)[0] == 0:
                    base = c
                    break
            if base is None:
                print("%s: applies to no commit" % n)
                continue
            sh(["git", "apply", patch], cwd=wt)
            sh(G + ["commit", "-qam", "seed " + n], cwd=wt)
            pick = sh(["git", "rev-parse", "HEAD"], cwd=wt)[1].strip()
            sh(G + ["checkout", "-q", "--detach", head], cwd=wt)
            rc, out = sh(G + ["cherry-pick", pick], cwd=wt)
            if rc != 0:
                conflicts = sh(["git", "diff", "--name-only", "--diff-filter=U"], cwd=wt)[1].split()
                sh(G + ["cherry-pick", "--abort"], cwd=wt)
                print("%s: CONFLICT in %s (base %s)" % (n, conflicts, base[:7]))
                continue
            rc, out = sh(["go", "build", "./..."], cwd=wt)
            if rc != 0:
                print("%s: rebased but does not build" % n)
                continue
            os.replace(patch, os.path.join(d, "patch.orig.diff"))
            open(patch, "w").write(sh(["git", "diff", "HEAD~1", "HEAD"], cwd=wt)[1])
            m = json.load(open(os.path.join(d, "meta.json")))
            m["rebased_onto"] = head[:7]
            m.pop("recheck", None)
            json.dump(m, open(os.path.join(d, "meta.json"), "w"), indent=1)
            print("%s: rebased (from %s)" % (n, base[:7]))
    finally:
        sh(["git", "-C", "/repo", "worktree", "remove", "--force", wt])


if __name__ == "__main__":
    main()
