package main

import (
	"fmt"
	"os"
	"path/filepath"
	"strings"
	"time"
	"verif/harness/internal/run"

	"gopkg.in/yaml.v3"
)

type yAttr struct {
	Name   string `yaml:"name"`
	Degree string `yaml:"degree"`
}

type yAttrInfo struct {
	Attribute yAttr  `yaml:"attribute"`
	Semitone  int    `yaml:"semitone"`
	SWO       int    `yaml:"semitone_without_octave"`
	Root      string `yaml:"root"`
	Applied   string `yaml:"applied"`
	Octave    int    `yaml:"octave_diff"`
}

type yChordDef struct {
	Name string `yaml:"name"`
	Meta struct {
		Display string `yaml:"display"`
	} `yaml:"meta"`
	Attributes []string `yaml:"attributes"`
	Extends    string   `yaml:"extends"`
}

type yChordInfo struct {
	Chord      yChordDef   `yaml:"chord"`
	Root       string      `yaml:"root"`
	Attributes []yAttrInfo `yaml:"attributes"`
}

var intervalMarks = []string{"", "b", "#", "bb", "##", "bbb"}

func attrInfoRec(ai yAttrInfo) Rec {
	return Rec{"name": ai.Attribute.Name, "printed": chars(ai.Attribute.Degree), "semitone": ai.Semitone, "swo": ai.SWO,
		"root": chars(ai.Root), "applied": chars(ai.Applied), "octave": ai.Octave}
}

// writeTemp writes a scratch file next to the driver output (removed with the scratch directory by ./check)
func (c *Ctx) writeTemp(name string, content string) string {
	dir := filepath.Join(c.Out, "tmp")
	_ = os.MkdirAll(dir, 0o755)
	p := filepath.Join(dir, name)
	_ = os.WriteFile(p, []byte(content), 0o644)
	return p
}

func stringsOver(alpha string, maxLen int) []string {
	out := []string{}
	cur := []string{""}
	for i := 0; i < maxLen; i++ {
		next := []string{}
		for _, p := range cur {
			for _, ch := range alpha {
				next = append(next, p+string(ch))
			}
		}
		out = append(out, next...)
		cur = next
	}
	return out
}

func init() {
	register("c15", Def{
		Rule: "genattr: `gen attr -d N` listing; describe: user attribute file spelling every interval notation (6 marks x n<=N) x 21 roots x both accidental preferences through " +
			"`info attr describe`; notation: every string over {b,#,0-9} up to length L as a user attribute degree through `info attr list`; chorddesc: 21 roots x 23 symbols x 2 " +
			"preferences through `info chord describe`; rootspell: 51 spellings of the root (ASCII and Unicode accidentals, strings that are no note name) through both describe commands. quick N=22 L=3, thorough N=64 L=4. distinct = distinct (kind, input)",
		Exhaustive: true,
		Gen: func(c *Ctx) []Case {
			N, L := 22, 3
			if !c.quick() {
				N, L = 64, 4
			}
			cases := []Case{{"cmd": "genattr", "d": N + 1}}
			for n := 1; n <= N; n++ {
				for _, m := range intervalMarks {
					for _, r := range noteSpellings() {
						for _, s := range []bool{false, true} {
							cases = append(cases, Case{"cmd": "describe", "degree": fmt.Sprintf("%s%d", m, n), "root": r, "sharp": s})
						}
					}
				}
			}
			for _, s := range stringsOver("b#0123456789", L) {
				cases = append(cases, Case{"cmd": "notation", "s": s})
			}
			for _, r := range noteSpellings() {
				for _, sym := range chordSymbols {
					for _, s := range []bool{false, true} {
						cases = append(cases, Case{"cmd": "chorddesc", "root": r, "sym": sym, "sharp": s})
					}
				}
			}
			// how the root is spelled: the Unicode signs the chord text accepts, and strings that are not a note name at all
			roots := []string{"H", "c", "C##", "Cbb", "C#b", "xxCyy", "C #", "C#m", "Db7", " C", "CC", "♯C", "C♮", "", "C𝄪", "1"}
			for _, l := range "CDEFGAB" {
				roots = append(roots, string(l), string(l)+"#", string(l)+"b", string(l)+"♯", string(l)+"♭")
			}
			for _, r := range roots {
				cases = append(cases, Case{"cmd": "rootspell", "root": r, "via": "attr"}, Case{"cmd": "rootspell", "root": r, "via": "chord"})
			}
			// an attribute without a degree has no interval: a chord that uses it cannot be described, wherever it stands
			for pos := 0; pos < 4; pos++ {
				for _, ext := range []bool{false, true} {
					cases = append(cases, Case{"cmd": "baddesc", "pos": pos, "ext": ext})
				}
			}
			return cases
		},
		Exec: func(c *Ctx, k Case) []Rec {
			switch cs(k, "cmd") {
			case "baddesc":
				pos := ci(k, "pos")
				id := fmt.Sprintf("bad%d%v", pos, cb(k, "ext"))
				fa := c.writeTemp(id+"a.yml", "- name: Bad\n- name: Fine\n  degree: \"b7\"\n")
				attrs := []string{"Perfect1", "Major3", "Perfect5", "Fine"}
				attrs = append(attrs[:pos], append([]string{"Bad"}, attrs[pos:]...)...)
				dict := "- name: Broken\n  meta: {display: brk}\n  attributes: [" + strings.Join(attrs, ", ") + "]\n"
				target := "C_brk"
				if cb(k, "ext") { // reached through extends
					dict += "- name: Child\n  meta: {display: chd}\n  extends: Broken\n  attributes: [Major9]\n"
					target = "C_chd"
				}
				fc := c.writeTemp(id+"c.yml", dict)
				r := c.crd([]string{"info", "chord", "describe", "--attr", fa, "--chord", fc, "-t", target}, nil)
				os.Remove(fa)
				os.Remove(fc)
				return []Rec{{"kind": "baddesc", "sub": id, "pos": pos, "ext": cb(k, "ext"), "refused": r.Exit > 0 && len(r.Stdout) == 0 && len(r.Stderr) > 0 && !r.Panic,
					"exit": r.Exit, "stdoutLen": len(r.Stdout), "stderrLen": len(r.Stderr), "terminated": !r.TimedOut, "panic": r.Panic}}
			case "rootspell":
				root, via := cs(k, "root"), cs(k, "via")
				rec := Rec{"kind": "rootspell", "sub": via, "root": chars(root), "via": via, "ok": false, "outRoot": []int{}, "applied": []int{}}
				var r run.Result
				if via == "attr" {
					r = c.crd([]string{"info", "attr", "describe", "-t", "Major3", "-r", root}, nil)
					var ai yAttrInfo
					if r.Exit == 0 && len(r.Stdout) > 0 && yaml.Unmarshal(r.Stdout, &ai) == nil && ai.Attribute.Name != "" {
						rec["ok"], rec["outRoot"], rec["applied"] = true, chars(ai.Root), chars(ai.Applied)
					}
				} else {
					r = c.crd([]string{"info", "chord", "describe", "-t", root + "m"}, nil)
					var ci yChordInfo
					if r.Exit == 0 && len(r.Stdout) > 0 && yaml.Unmarshal(r.Stdout, &ci) == nil && ci.Chord.Name != "" {
						rec["ok"], rec["outRoot"] = true, chars(ci.Root)
						for _, a := range ci.Attributes {
							if a.Attribute.Name == "Minor3" {
								rec["applied"] = chars(a.Applied)
							}
						}
					}
				}
				rec["terminated"], rec["panic"], rec["stdoutLen"], rec["stderrLen"] = !r.TimedOut, r.Panic, len(r.Stdout), len(r.Stderr)
				return []Rec{rec}
			case "genattr":
				r := c.crd([]string{"gen", "attr", "-d", fmt.Sprint(ci(k, "d"))}, nil)
				var attrs []yAttr
				ok := len(r.Stdout) > 0 && yaml.Unmarshal(r.Stdout, &attrs) == nil
				list := []Rec{}
				for _, a := range attrs {
					list = append(list, Rec{"name": a.Name, "degree": chars(a.Degree)})
				}
				return []Rec{{"kind": "genattr", "ok": ok, "d": ci(k, "d"), "attrs": list}}
			case "describe":
				deg := cs(k, "degree")
				id := fmt.Sprintf("d_%x_%s_%v", deg, strings.ReplaceAll(cs(k, "root"), "#", "s"), cb(k, "sharp"))
				f := c.writeTemp(id+".yml", fmt.Sprintf("- name: X\n  degree: %q\n", deg))
				args := []string{"info", "attr", "describe", "--attr", f, "-t", "X", "-r", cs(k, "root")}
				// the accidental preference in all its spellings: -s / nothing, --precedeSharp=true|false, -s=true|false
				form := (len(deg)*7 + len(cs(k, "root"))*3 + int(deg[len(deg)-1])) % 3
				switch {
				case form == 1:
					args = append(args, fmt.Sprintf("--precedeSharp=%v", cb(k, "sharp")))
				case form == 2:
					args = append(args, fmt.Sprintf("-s=%v", cb(k, "sharp")))
				case cb(k, "sharp"):
					args = append(args, "-s")
				}
				var r run.Result
				if false { // (the attribute file through a named pipe: a route no sentence of C15 covers -- second audit)
					content, _ := os.ReadFile(f)
					os.Remove(f)
					r = run.Run(c.Bin, run.Cmd{Args: args, Timeout: 20 * time.Second, Fifos: map[string][]byte{f: content}})
				} else {
					r = c.crd(args, nil)
				}
				os.Remove(f)
				var ai yAttrInfo
				rec := Rec{"kind": "describe", "degree": chars(deg), "root": chars(cs(k, "root")), "sharp": cb(k, "sharp"),
					"ok": false, "stdoutLen": len(r.Stdout), "stderrLen": len(r.Stderr), "terminated": !r.TimedOut}
				if len(r.Stdout) > 0 && yaml.Unmarshal(r.Stdout, &ai) == nil && ai.Attribute.Name == "X" {
					rec["ok"] = true
					rec["out"] = attrInfoRec(ai)
				}
				return []Rec{rec}
			case "notation":
				s := cs(k, "s")
				ys := fmt.Sprintf("%q", s)
				if strings.Trim(s, "0123456789") == "" && len(s) > 0 && (len(s) == 3 || len(s)%2 == 0) {
					ys = s // an unquoted numeral (YAML would call 011 an octal integer; the notation is decimal)
				}
				f := c.writeTemp(fmt.Sprintf("n_%x.yml", s), fmt.Sprintf("- name: X\n  degree: %s\n", ys))
				r := c.crd([]string{"info", "attr", "list", "--attr", f}, nil)
				os.Remove(f)
				var attrs []yAttr
				rec := Rec{"kind": "notation", "s": chars(s), "ok": false, "printed": []int{}, "terminated": !r.TimedOut,
					"stdoutLen": len(r.Stdout), "stderrLen": len(r.Stderr)}
				if len(r.Stdout) > 0 && yaml.Unmarshal(r.Stdout, &attrs) == nil {
					for _, a := range attrs { // wherever the listing puts it
						if a.Name == "X" {
							rec["ok"] = true
							rec["printed"] = chars(a.Degree)
						}
					}
				}
				return []Rec{rec}
			case "chorddesc":
				target := cs(k, "root")
				if cs(k, "sym") != "" {
					target += "_" + cs(k, "sym")
				}
				args := []string{"info", "chord", "describe", "-t", target}
				if cb(k, "sharp") {
					args = append(args, "-s")
				}
				r := c.crd(args, nil)
				var ci yChordInfo
				rec := Rec{"kind": "chorddesc", "root": chars(cs(k, "root")), "sym": cs(k, "sym"), "sharp": cb(k, "sharp"),
					"ok": false, "attrs": []Rec{}, "stdoutLen": len(r.Stdout), "stderrLen": len(r.Stderr), "terminated": !r.TimedOut}
				if len(r.Stdout) > 0 && yaml.Unmarshal(r.Stdout, &ci) == nil && ci.Chord.Name != "" {
					rec["ok"] = true
					rec["display"] = ci.Chord.Meta.Display
					rec["outRoot"] = chars(ci.Root)
					as := []Rec{}
					for _, a := range ci.Attributes {
						as = append(as, attrInfoRec(a))
					}
					rec["attrs"] = as
				}
				return []Rec{rec}
			}
			return nil
		},
	})
}

var chordSymbols = []string{"", "m", "dim", "aug", "7", "M7", "maj7", "m7", "mM7", "m7b5", "dim7", "augM7",
	"9", "m9", "M9", "maj9", "mM9", "sus4", "7sus4", "6", "m6", "add9", "sus2"}
