package main

import (
	"fmt"
	"math/rand"
	"strings"

	"gopkg.in/yaml.v3"
)

// PItem is one item of an abstract progression (degree level). Untrusted: the spec re-derives what the
// rendered texts denote.
type PItem struct {
	Rest    bool
	N       int // degree number
	Acc     int // -1 flat, 0, +1 sharp (text notation: one mark after the number)
	Sym     string
	HasBass bool
	BN      int
	BAcc    int
	Vals    []Frac
	Meta    [][2]string
}

var letterPc = []int{0, 2, 4, 5, 7, 9, 11}
var majorSize = []int{0, 2, 4, 5, 7, 9, 11}

func perfectClass(n int) bool { m := (n - 1) % 7; return m == 0 || m == 3 || m == 4 }

// size of the text-notation interval n with mark acc (b = minor, or diminished for perfect class)
func textIntervalSize(n, acc int) int {
	s := majorSize[(n-1)%7] + 12*((n-1)/7)
	switch acc {
	case 1:
		return s + 1
	case -1:
		return s - 1
	}
	return s
}

type gnote struct{ L, A int }

func (g gnote) String() string {
	return string("CDEFGAB"[g.L]) + map[int]string{0: "", 1: "#", -1: "b"}[g.A]
}
func (g gnote) pitch() int { return letterPc[g.L] + g.A }

func parseKeyName(k string) (gnote, bool) {
	minor := strings.HasSuffix(k, "m")
	k = strings.TrimSuffix(k, "m")
	g := gnote{L: strings.IndexByte("CDEFGAB", k[0])}
	if len(k) > 1 {
		if k[1] == '#' {
			g.A = 1
		} else {
			g.A = -1
		}
	}
	return g, minor
}

// spell the note a text-interval (n, acc) above x; ok=false when it needs a double accidental
func spellAbove(x gnote, n, acc int) (gnote, bool) {
	l := (x.L + n - 1) % 7
	want := x.pitch() + textIntervalSize(n, acc)
	a := ((want-letterPc[l])%12 + 12) % 12
	if a > 6 {
		a -= 12
	}
	if a < -1 || a > 1 {
		return gnote{}, false
	}
	return gnote{l, a}, true
}

func symText(sym string, rng *rand.Rand) string {
	if sym == "" {
		return ""
	}
	c := sym[0]
	need := (c >= '0' && c <= '9') || c == 'b' || c == '#' || strings.ContainsRune("CDEFGABR", rune(c))
	if need || rng.Intn(4) == 0 {
		return "_" + sym
	}
	return sym
}

func tailText(it PItem) string {
	vs := []string{}
	for _, v := range it.Vals {
		vs = append(vs, v.String())
	}
	s := "[" + strings.Join(vs, ",") + "]"
	if len(it.Meta) > 0 {
		ps := []string{}
		for _, m := range it.Meta {
			ps = append(ps, m[0]+"="+m[1])
		}
		s += "{" + strings.Join(ps, ",") + "}"
	}
	return s
}

var accText = map[int]string{0: "", 1: "#", -1: "b"}

// degreeText renders the progression in degree notation
func degreeText(p []PItem, rng *rand.Rand) string {
	parts := []string{}
	for _, it := range p {
		if it.Rest {
			parts = append(parts, "R"+tailText(it))
			continue
		}
		s := fmt.Sprint(it.N) + accText[it.Acc] + symText(it.Sym, rng)
		if it.HasBass {
			s += "/" + fmt.Sprint(it.BN) + accText[it.BAcc]
		}
		parts = append(parts, s+tailText(it))
	}
	return strings.Join(parts, " ") + "\n"
}

// syllableText renders it with note names, starting in key k0 and following the {key=...} changes;
// ok=false when some note cannot be spelled with at most one accidental
func syllableText(p []PItem, k0 string, rng *rand.Rand) (string, bool) {
	parts := []string{}
	tonic, _ := parseKeyName(k0)
	for _, it := range p {
		for _, m := range it.Meta {
			if m[0] == "key" {
				tonic, _ = parseKeyName(m[1])
			}
		}
		if it.Rest {
			parts = append(parts, "R"+tailText(it))
			continue
		}
		root, ok := spellAbove(tonic, it.N, it.Acc)
		if !ok {
			return "", false
		}
		s := root.String() + symText(it.Sym, rng)
		if it.HasBass {
			b, ok := spellAbove(root, it.BN, it.BAcc)
			if !ok {
				return "", false
			}
			s += "/" + b.String()
		}
		parts = append(parts, s+tailText(it))
	}
	return strings.Join(parts, " ") + "\n", true
}

var progSyms = []string{"", "", "m", "m7", "7", "maj7", "dim", "sus4", "9", "m7b5", "6", "aug", "add9", "Xyz"}

func randomProg(rng *rand.Rand, maxLen int, keyChangeP float64, maxN int) []PItem {
	n := 1 + rng.Intn(maxLen)
	p := []PItem{}
	hasChord := false
	// half of the progressions modulate inside a pool of two or three keys (so that they return to a key they left)
	keyPool := supportedKeys
	if rng.Intn(2) == 0 {
		keyPool = []string{supportedKeys[rng.Intn(28)], supportedKeys[rng.Intn(28)], "C"}[:2+rng.Intn(2)]
	}
	for i := 0; i < n; i++ {
		it := PItem{Rest: rng.Intn(5) == 0}
		if i == n-1 && !hasChord {
			it.Rest = false
		}
		if !it.Rest {
			hasChord = true
			it.N = 1 + rng.Intn(maxN)
			it.Acc = []int{0, 0, 0, 1, -1}[rng.Intn(5)]
			it.Sym = progSyms[rng.Intn(len(progSyms))]
			if rng.Intn(3) == 0 {
				it.HasBass = true
				it.BN = 1 + rng.Intn(7)
				it.BAcc = []int{0, 0, 1, -1}[rng.Intn(4)]
			}
		}
		k := 1 + rng.Intn(2)
		for j := 0; j < k; j++ {
			it.Vals = append(it.Vals, fracPool[rng.Intn(len(fracPool))])
		}
		if rng.Float64() < keyChangeP {
			it.Meta = append(it.Meta, [2]string{"key", keyPool[rng.Intn(len(keyPool))]})
		}
		if rng.Intn(6) == 0 {
			it.Meta = append(it.Meta, [2]string{"bpm", fmt.Sprint(20 + rng.Intn(300))})
		}
		if rng.Intn(8) == 0 {
			it.Meta = append(it.Meta, [2]string{"vel", dynamics[rng.Intn(6)]})
		}
		if rng.Intn(8) == 0 {
			it.Meta = append(it.Meta, [2]string{"mtr", []string{"3/4", "4/4", "6/8", "5/4", "7"}[rng.Intn(5)]})
		}
		if rng.Intn(6) == 0 {
			it.Meta = append(it.Meta, [2]string{[]string{"txt", "lic", "mrk", "foo"}[rng.Intn(4)], []string{"hello", "la la", "x", "A: b", "é♭ü", "1"}[rng.Intn(6)]})
		}
		rng.Shuffle(len(it.Meta), func(a, b int) { it.Meta[a], it.Meta[b] = it.Meta[b], it.Meta[a] })
		p = append(p, it)
	}
	return p
}

// ---- projection of `text conv` output (order of the meta map kept as printed)
type yConvInst struct {
	Chord *struct {
		Degree string  `yaml:"degree"`
		Name   string  `yaml:"name"`
		Base   *string `yaml:"base"`
	} `yaml:"chord"`
	Values   []string  `yaml:"values"`
	BPM      *int      `yaml:"bpm"`
	Velocity *string   `yaml:"velocity"`
	Meter    *string   `yaml:"meter"`
	Key      *string   `yaml:"key"`
	Meta     yaml.Node `yaml:"meta"`
}

func projectInstances(b []byte) ([]Rec, bool) {
	var ins []yConvInst
	if len(b) == 0 || yaml.Unmarshal(b, &ins) != nil {
		return nil, false
	}
	out := []Rec{}
	for _, in := range ins {
		r := Rec{"rest": in.Chord == nil, "deg": []int{}, "name": []int{}, "hasBase": false, "base": []int{}, "vals": strsChars(in.Values),
			"bpm": 0, "meter": []int{}, "vel": []int{}, "key": []int{}, "meta": [][][]int{}}
		if in.Chord != nil {
			r["deg"] = chars(in.Chord.Degree)
			r["name"] = chars(in.Chord.Name)
			if in.Chord.Base != nil {
				r["hasBase"] = true
				r["base"] = chars(*in.Chord.Base)
			}
		}
		if in.BPM != nil {
			r["bpm"] = *in.BPM
		}
		if in.Velocity != nil {
			r["vel"] = chars(*in.Velocity)
		}
		if in.Meter != nil {
			r["meter"] = chars(*in.Meter)
		}
		if in.Key != nil {
			r["key"] = chars(*in.Key)
		}
		meta := [][][]int{}
		if in.Meta.Kind == yaml.MappingNode {
			for i := 0; i+1 < len(in.Meta.Content); i += 2 {
				meta = append(meta, [][]int{chars(in.Meta.Content[i].Value), chars(in.Meta.Content[i+1].Value)})
			}
		}
		r["meta"] = meta
		out = append(out, r)
	}
	return out, true
}

// convRec runs `crd text conv <mode> [--key K]` and projects the outcome; the raw stdout is returned too
func convRec(c *Ctx, mode, keyflag, text string) (Rec, []byte) {
	args := []string{"text", "conv", mode}
	if keyflag != "" {
		args = append(args, "--key", keyflag)
	}
	r := c.crd(args, []byte(text))
	rec := Rec{"s": chars(text), "mode": mode, "keyflag": chars(keyflag), "ok": false, "out": []Rec{}, "terminated": !r.TimedOut,
		"stdoutLen": len(r.Stdout), "stderrLen": len(r.Stderr), "exit": r.Exit, "panic": r.Panic}
	if out, ok := projectInstances(r.Stdout); ok && r.Exit == 0 {
		rec["ok"] = true
		rec["out"] = out
	}
	return rec, r.Stdout
}
