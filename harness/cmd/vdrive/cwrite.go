package main

import (
	"fmt"
	"math/rand"
	"os"
	"strings"
	"sync"
	"time"

	"verif/harness/internal/smf"
)

// writeRec runs the real `crd write` on the YAML rendering of d and projects the outcome.
func writeRec(c *Ctx, d Doc, fl Flags, tracks int, alsoSingle bool, extra ...string) Rec {
	args := append(append([]string{"write", "--track", fmt.Sprint(tracks)}, fl.Args()...), extra...)
	r := c.crd(args, d.YAML())
	f := smf.Parse(r.Stdout)
	rec := Rec{"kind": "write", "doc": d.Abstract(), "flags": fl.Abstract(), "tracks": tracks,
		"ok":   r.Exit == 0 && !r.TimedOut && !r.Panic && f.Err == "" && len(r.Stdout) > 0,
		"exit": r.Exit, "terminated": !r.TimedOut, "stdoutLen": len(r.Stdout), "stderrLen": len(r.Stderr),
		"division": f.Division, "ntracks": f.NTracks, "ev": eventsOf(f), "smfErr": f.Err,
		"ok1": true, "ev1": [][]any{}, "refDivision": refDivision(c),
		// a clean refusal: a message, a non-zero status, no output
		"refused": r.Exit > 0 && !r.TimedOut && !r.Panic} // (a refusal is a failing run; how it looks is C09's business)
	if alsoSingle {
		args1 := append(append([]string{"write", "--track", "1"}, fl.Args()...), extra...)
		r1 := c.crd(args1, d.YAML())
		f1 := smf.Parse(r1.Stdout)
		rec["ok1"] = r1.Exit == 0 && !r1.TimedOut && !r1.Panic && f1.Err == "" && len(r1.Stdout) > 0
		rec["ev1"] = eventsOf(f1)
	}
	return rec
}

// absurdRec: one instance of `digits` beats (far beyond anything a delta time can hold) between two ordinary chords
func absurdRec(c *Ctx, digits string, rest bool, tracks int) Rec {
	inst := "- chord: {name: \"\", degree: \"1\"}\n  values: [\"" + digits + "\"]\n"
	if rest {
		inst = "- values: [\"" + digits + "\"]\n"
	}
	y := "- chord: {name: \"\", degree: \"1\"}\n  values: [\"1\"]\n" + inst + "- chord: {name: \"\", degree: \"5\"}\n  values: [\"1\"]\n"
	r := c.crd([]string{"write", "--track", fmt.Sprint(tracks)}, []byte(y))
	return Rec{"kind": "absurd", "sub": fmt.Sprint(digits, rest, tracks), "digits": chars(digits), "rest": rest, "tracks": tracks, "exit": r.Exit, "stdoutLen": len(r.Stdout), "stderrLen": len(r.Stderr), "refDivision": refDivision(c),
		"refused": r.Exit > 0 && !r.TimedOut && !r.Panic} // (a refusal is a failing run; how it looks is C09's business)
}

// refDivision: the ticks per quarter note the binary under test declares, read off one small file (a refused run has no
// header to read it from)
var (
	refDivOnce sync.Once
	refDiv     int
	refLabels  []smf.Event
)

func refRun(c *Ctx) {
	refDivOnce.Do(func() {
		r := c.crdEnv([]string{"write"}, []byte("- chord: {degree: \"1\", name: \"\"}\n  values: [\"1\"]\n"), nil, 30*time.Second)
		f := smf.Parse(r.Stdout)
		refDiv = f.Division
		for _, e := range f.Events { // text / lyric / marker events of a document that has none: the writer's own labels
			if e.Kind == smf.KindMeta && (e.A == 1 || e.A == 5 || e.A == 6) && e.Tick == 0 {
				refLabels = append(refLabels, e)
			}
		}
	})
}

func refDivision(c *Ctx) int {
	refRun(c)
	return refDiv
}

// docTexts: the text, lyric and marker events of a file without the writer's own labels (what a document without any text
// gets at tick 0 all the same; each label taken off once)
func docTexts(c *Ctx, f smf.File) []smf.Event {
	refRun(c)
	left := append([]smf.Event{}, refLabels...)
	out := []smf.Event{}
next:
	for _, e := range f.Events {
		if e.Kind != smf.KindMeta || (e.A != 1 && e.A != 5 && e.A != 6) {
			continue
		}
		if e.Tick == 0 {
			for i, l := range left {
				if l.A == e.A && fmt.Sprint(l.Data) == fmt.Sprint(e.Data) {
					left = append(left[:i], left[i+1:]...)
					continue next
				}
			}
		}
		out = append(out, e)
	}
	return out
}

func writeExec(alsoSingle bool) func(c *Ctx, k Case) []Rec {
	return func(c *Ctx, k Case) []Rec {
		tr := ci(k, "tracks")
		if tr == 0 {
			tr = 1
		}
		if dg := cs(k, "absurd"); dg != "" {
			return []Rec{absurdRec(c, dg, cb(k, "rest"), tr)}
		}
		if n := ci(k, "bigchord"); n > 0 {
			// a user chord with n attributes (more notes than any small counter holds), called "big"
			var ab, as strings.Builder
			for i := 0; i < n; i++ { // n attributes of n different names
				fmt.Fprintf(&ab, "- name: N%d\n  degree: \"%d\"\n", i, 1+i%15)
				if i > 0 {
					as.WriteString(", ")
				}
				fmt.Fprintf(&as, "N%d", i)
			}
			fa := c.writeTemp(fmt.Sprintf("biga%d.yml", nextID()), ab.String())
			defer os.Remove(fa)
			f := c.writeTemp(fmt.Sprintf("big%d.yml", nextID()), "- name: Big\n  meta: {display: big}\n  attributes: ["+as.String()+"]\n")
			defer os.Remove(f)
			return []Rec{writeRec(c, caseToDoc(k["doc"]), caseToFlags(k["flags"]), tr, alsoSingle, "--attr", fa, "--chord", f)}
		}
		if cb(k, "debug") {
			return []Rec{writeRec(c, caseToDoc(k["doc"]), caseToFlags(k["flags"]), tr, alsoSingle, "--debug")}
		}
		return []Rec{writeRec(c, caseToDoc(k["doc"]), caseToFlags(k["flags"]), tr, alsoSingle)}
	}
}

func allIntervalNotations(maxN int) []string {
	out := []string{}
	for n := 1; n <= maxN; n++ {
		for _, m := range intervalMarks {
			// (whether an interval below the unison exists -- b1, bb1, bbb1, bbb2 -- is left open by the statements:
			// C15 "where that quality exists for n"; not generated)
			if (n == 1 && strings.HasPrefix(m, "b")) || (n == 2 && m == "bbb") {
				continue
			}
			out = append(out, fmt.Sprintf("%s%d", m, n))
		}
	}
	return out
}

func allSymbols() []string { return append(append([]string{}, chordSymbols...), longChordNames...) }

func one() []Frac { return []Frac{{1, 1}} }

func init() {
	// ---------------------------------------------------------------- C01
	register("c01", Def{
		Debug: true,
		Rule: "table part: 28 keys x all 90 degree notations (1..15 x 6 marks) in one document per (key, symbol) for the chosen symbols, and per (key) with every bass notation on the plain triad " +
			"(quick: 6 symbols + 12 bass notations; thorough: all 46 names/displays + all 90 bass notations); history part: seeded documents (<= 40 instances) with key changes at arbitrary " +
			"positions, on rests too, with and without --key. All durations 1, --track 1. distinct = distinct documents",
		Gen: func(c *Ctx) []Case {
			rng := rand.New(rand.NewSource(c.Seed))
			cases := []Case{}
			degs := allIntervalNotations(15)
			syms := []string{"", "m7", "dim7", "augM7", "maj9", longNameOf("7sus4")}
			basses := []string{"1", "3", "b3", "5", "bb5", "#5", "b7", "8", "##4", "bbb7", "10", "b13"}
			nh := 300
			if !c.quick() {
				syms, basses, nh = allSymbols(), degs, 5000
			}
			for ki, k := range supportedKeys {
				for _, s := range syms {
					d := Doc{}
					for _, g := range degs {
						d = append(d, Inst{Deg: g, Sym: s, Vals: one()})
					}
					fl := Flags{}
					if ki%2 == 0 {
						fl.Key = k // by flag
					} else {
						d[0].Key = k // by the first instance
					}
					cases = append(cases, Case{"doc": d, "flags": fl})
				}
				for _, b := range basses {
					d := Doc{}
					for _, g := range degs {
						d = append(d, Inst{Deg: g, Sym: "", Base: b, Vals: one()})
					}
					d[0].Key = k
					cases = append(cases, Case{"doc": d, "flags": Flags{}})
				}
			}
			// "concatenation twins" in one piece and one key: degree + symbol (+ bass) that read alike when written without a
			// separator (I7 / XVII, I6 / XVI, I9 / XIX, II7 / XXVII, bass 1 + symbol ...): each chord sounds its own notes
			for ki, k := range supportedKeys {
				if c.quick() && ki%4 != 0 {
					continue
				}
				d := Doc{}
				for _, tw := range [][2]string{{"1", "7"}, {"17", ""}, {"1", "6"}, {"16", ""}, {"1", "9"}, {"19", ""}, {"2", "7"}, {"27", ""}, {"1", "m7"}, {"1", "m"}, {"b2", "7"}, {"b27", ""},
					{"17", ""}, {"1", "7"}, {"#1", "9"}, {"#19", ""}, {"1", "69"}, {"16", "9"}} {
					if tw[1] == "69" || (tw[0] == "16" && tw[1] == "9") {
						continue // (no such built-in symbols)
					}
					d = append(d, Inst{Deg: tw[0], Sym: tw[1], Vals: one()})
				}
				d = append(d, Inst{Deg: "1", Sym: "", Base: "15", Vals: one()}, Inst{Deg: "11", Sym: "", Base: "5", Vals: one()}, Inst{Deg: "1", Sym: "", Base: "5", Vals: one()})
				d[0].Key = k
				cases = append(cases, Case{"doc": d, "flags": Flags{}})
			}
			for i := 0; i < nh; i++ {
				o := GenOpt{MaxLen: 40, RestP: 0.25, KeyP: 0.3, MaxDeg: 15, AllMarks: true, BassP: 0.4, Syms: allSymbols()}
				d := randomDoc(rng, o)
				fl := Flags{}
				if rng.Intn(2) == 0 {
					fl.Key = supportedKeys[rng.Intn(len(supportedKeys))]
				}
				if i%3 == 0 { // a pool of two or three keys: the piece leaves a key and comes back to it
					pool := []string{supportedKeys[rng.Intn(28)], supportedKeys[rng.Intn(28)], "C"}[:2+rng.Intn(2)]
					for j := range d {
						if d[j].Key != "" {
							d[j].Key = pool[rng.Intn(len(pool))]
						}
					}
					if fl.Key != "" {
						fl.Key = pool[0]
					}
				}
				cases = append(cases, Case{"doc": d, "flags": fl})
			}
			return cases
		},
		Exec: writeExec(false),
	})

	// ---------------------------------------------------------------- C02
	register("c02", Def{
		Debug: true,
		Rule: "all sequences of length <= L over an alphabet of 17 instance kinds (incl. a chord that rounds to 0 ticks, long fraction chains in the seeded part) (chords and rests with values 1, 2, 1/2, 1/3, 2/3, 3/7, 5/4, [1,1/4], [1/3,1/3,1/3], 7/960, halfway cases 1/1920 and 3/640, " +
			"rest carrying bpm / key) plus seeded long sequences (<= 200 instances, fractions from a pool with denominators <= 64 and /960); quick L=2 + 200 random, thorough L=3 + 3000 random; --track 1",
		Gen: func(c *Ctx) []Case {
			rng := rand.New(rand.NewSource(c.Seed))
			ch := func(v ...Frac) Inst { return Inst{Deg: "1", Sym: "", Vals: v} }
			rs := func(v ...Frac) Inst { return Inst{Rest: true, Vals: v} }
			alpha := []Inst{
				ch(Frac{1, 1}), ch(Frac{2, 1}), ch(Frac{1, 2}), ch(Frac{1, 3}), ch(Frac{2, 3}), ch(Frac{3, 7}), ch(Frac{5, 4}),
				ch(Frac{1, 1}, Frac{1, 4}), ch(Frac{1, 3}, Frac{1, 3}, Frac{1, 3}), ch(Frac{7, 960}), ch(Frac{3, 640}),
				ch(Frac{1, 4096}), // rounds to 0 ticks: struck and released at once, nothing shifts
				rs(Frac{1, 1}), rs(Frac{1, 3}), rs(Frac{1, 1920}), rs(Frac{5, 7}),
				{Rest: true, Vals: []Frac{{2, 3}}, BPM: 140, Key: "Eb"},
			}
			L, nr, maxLen := 2, 200, 60
			if !c.quick() {
				L, nr, maxLen = 3, 3000, 200
			}
			cases := []Case{}
			var rec func(prefix Doc, depth int)
			rec = func(prefix Doc, depth int) {
				if len(prefix) > 0 {
					cases = append(cases, Case{"doc": append(Doc{}, prefix...), "flags": Flags{}})
				}
				if depth == L {
					return
				}
				for _, a := range alpha {
					rec(append(append(Doc{}, prefix...), a), depth+1)
				}
			}
			rec(Doc{}, 0)
			// values whose tick count is a hair below a half (only exact arithmetic tells them from the half)
			cases = append(cases,
				Case{"doc": Doc{ch(Frac{1, 1}, Frac{1000, 1920001}), ch(Frac{1, 1})}, "flags": Flags{}},
				Case{"doc": Doc{rs(Frac{500, 960001}), ch(Frac{3, 1}, Frac{1500, 1920001}), rs(Frac{2500, 1920001}), ch(Frac{1, 2})}, "flags": Flags{}},
				Case{"doc": Doc{ch(Frac{1, 1}), {Rest: true, Vals: []Frac{{1, 1}}}, {Deg: "5", Sym: "", Vals: []Frac{{1, 1}}, Lic: "la"}, {Rest: true, Vals: []Frac{{1, 2}}},
					{Deg: "1", Sym: "", Vals: []Frac{{1, 1}}, Mrk: "m"}, {Rest: true, Vals: []Frac{{1, 3}}}, {Deg: "4", Sym: "", Vals: []Frac{{1, 1}}, Txt: " "}}, "flags": Flags{}},
				Case{"doc": Doc{ch(Frac{1, 1}), {Rest: true, Vals: []Frac{{1, 1}}}, {Deg: "5", Sym: "", Vals: []Frac{{1, 1}}, Lic: "la"}, {Rest: true, Vals: []Frac{{1, 2}}},
					{Deg: "1", Sym: "", Vals: []Frac{{1, 1}}, Mrk: "m"}}, "flags": Flags{}, "tracks": 3})
			// at and beyond the limit of the file format (a delta time holds 2^28 - 1 ticks = 279,620.27 beats): the piece is
			// written right or refused, never written wrong
			cases = append(cases,
				Case{"doc": Doc{ch(Frac{279620, 1})}, "flags": Flags{}},
				Case{"doc": Doc{ch(Frac{279619, 1})}, "flags": Flags{}, "tracks": 2},
				Case{"doc": Doc{ch(Frac{279621, 1})}, "flags": Flags{}},
				Case{"doc": Doc{ch(Frac{1, 1}), ch(Frac{300000, 1}), ch(Frac{1, 1})}, "flags": Flags{}},
				Case{"doc": Doc{ch(Frac{1, 1}), rs(Frac{300000, 1}), ch(Frac{1, 1})}, "flags": Flags{}},
				Case{"doc": Doc{ch(Frac{1, 1}), rs(Frac{2000000, 1})}, "flags": Flags{}},
				Case{"doc": Doc{ch(Frac{100000, 1}), ch(Frac{100000, 1}), ch(Frac{79621, 1})}, "flags": Flags{}},
				Case{"doc": Doc{ch(Frac{100000, 1}), ch(Frac{100000, 1}), ch(Frac{79621, 1})}, "flags": Flags{}, "tracks": 2},
				Case{"doc": Doc{ch(Frac{100000, 1}), rs(Frac{100000, 1}), ch(Frac{100000, 1}), rs(Frac{200000, 1}), rs(Frac{200000, 3}), ch(Frac{1, 1})}, "flags": Flags{}, "tracks": 4},
				Case{"doc": Doc{rs(Frac{150000, 1}), rs(Frac{150000, 1}), ch(Frac{1, 1})}, "flags": Flags{}},
				Case{"doc": Doc{ch(Frac{140000, 1}), ch(Frac{140000, 1}), {Deg: "5", Sym: "7", Vals: []Frac{{1, 1}}}}, "flags": Flags{}, "tracks": 6},
				Case{"doc": Doc{ch(Frac{140000, 1}), ch(Frac{139000, 1}), {Deg: "5", Sym: "9", Vals: []Frac{{1, 1}}}}, "flags": Flags{}, "tracks": 7},
				Case{"doc": Doc{ch(Frac{1, 1}), rs(Frac{150000, 1}), rs(Frac{150000, 1})}, "flags": Flags{}})
			// ... and to the tick: a silence / a chord of exactly 2^28 - 2, 2^28 - 1, 2^28 and 2^28 + 1 ticks of this binary's resolution
			if T := refDivision(c); T > 0 {
				for _, n := range []int{1<<28 - 2, 1<<28 - 1, 1 << 28, 1<<28 + 1} {
					cases = append(cases, Case{"doc": Doc{rs(Frac{n, T}), ch(Frac{1, 1})}, "flags": Flags{}},
						Case{"doc": Doc{ch(Frac{n, T}), rs(Frac{1, 1})}, "flags": Flags{}, "tracks": 2})
				}
			}
			for _, dg := range []string{"4473924", "4473925", "4473926", "5000000", "8947849", "10000000", "44739243", "100000000000", "18446744073709551616", "99999999999999999999999999"} {
				cases = append(cases, Case{"absurd": dg, "rest": false}, Case{"absurd": dg, "rest": true, "tracks": 2})
			}
			// close to the limit of the property (total below 2^28 ticks = 279,620 beats)
			cases = append(cases,
				Case{"doc": Doc{ch(Frac{100000, 1}), rs(Frac{150000, 1}), ch(Frac{1, 3})}, "flags": Flags{}},
				Case{"doc": Doc{rs(Frac{279000, 1}), ch(Frac{500, 1}), rs(Frac{1, 7})}, "flags": Flags{}, "tracks": 3},
				Case{"doc": Doc{ch(Frac{1, 3}, Frac{90000, 1}, Frac{1, 3}), ch(Frac{180000, 7})}, "flags": Flags{}})
			for i := 0; i < nr; i++ {
				o := GenOpt{MaxLen: maxLen, RestP: 0.3, KeyP: 0.05, SettingP: 0.05, Fractions: true, MultiVals: true, MaxDeg: 7, BassP: 0.2,
					Syms: []string{"", "m", "7", "maj7", "sus4"}, BigVals: i%5 == 0, Texts: []string{"x", "la", " ", "end"}, TextP: 0.12}
				d := randomDoc(rng, o)
				if i%6 == 1 { // one instance written as a long chain of fractions, another as a tiny one
					den := []int{7, 256, 997, 1000, 9}[rng.Intn(5)]
					k := rng.Intn(len(d))
					d[k].Vals = nil
					for j := 0; j < 8+rng.Intn(25); j++ {
						d[k].Vals = append(d[k].Vals, Frac{1 + rng.Intn(den), den})
					}
					k2 := rng.Intn(len(d))
					if k2 != k {
						d[k2].Vals = []Frac{{1, []int{4096, 1921, 2000, 5000}[rng.Intn(4)]}}
					}
				}
				cs := Case{"doc": d, "flags": Flags{}}
				if i%4 == 3 { // the same timing law on several tracks (checked through the merged events)
					cs["tracks"] = []int{2, 3, 5, 9}[(i/4)%4]
				}
				cases = append(cases, cs)
			}
			return cases
		},
		Exec: func(c *Ctx, k Case) []Rec {
			tr := ci(k, "tracks")
			if tr == 0 {
				tr = 1
			}
			if dg := cs(k, "absurd"); dg != "" {
				return []Rec{absurdRec(c, dg, cb(k, "rest"), tr)}
			}
			return []Rec{writeRec(c, caseToDoc(k["doc"]), caseToFlags(k["flags"]), tr, tr > 1)}
		},
	})

	// ---------------------------------------------------------------- C06
	register("c06", Def{
		Debug: true,
		Rule: "seeded documents (chords with 1..6 sounding keys, rests in leading/inner/consecutive/trailing position, controls and texts interleaved, fractions) plus hand-picked shapes " +
			"(trailing rests, rests only between controls, single chord), each written with --track N and --track 1; quick N in {2,3,7,4}, thorough N in {2,3,4,5,8,16,32}; distinct = (document, N)",
		Gen: func(c *Ctx) []Case {
			rng := rand.New(rand.NewSource(c.Seed))
			ns, nd := []int{2, 3, 7, 4}, 120
			if !c.quick() {
				ns, nd = []int{2, 3, 4, 5, 8, 16, 32}, 1200
			}
			docs := []Doc{
				{{Deg: "1", Sym: "", Vals: one()}},
				{{Deg: "1", Sym: "", Vals: one()}, {Rest: true, Vals: []Frac{{2, 1}}}},
				{{Rest: true, Vals: one()}, {Deg: "5", Sym: "7", Vals: one()}, {Rest: true, Vals: one()}, {Rest: true, Vals: []Frac{{1, 3}}, BPM: 90}},
				{{Deg: "1", Sym: "maj9", Base: "3", Vals: []Frac{{1, 3}}}, {Deg: "4", Sym: "m", Vals: []Frac{{2, 3}}, Key: "Am", Txt: "x"}, {Rest: true, Vals: one(), Txt: "end"}},
				{{Rest: true, Vals: one()}},
			}
			for i := 0; i < nd; i++ {
				o := GenOpt{MaxLen: 14, RestP: 0.35, KeyP: 0.15, SettingP: 0.15, TextP: 0.2, Fractions: true, MultiVals: true, MaxDeg: 9, BassP: 0.3,
					Syms: chordSymbols, Texts: sampleTexts, BigVals: i%4 == 0}
				if i%10 == 9 {
					o.MaxLen = 150 // long pieces: tracks stay idle for a long time
				}
				docs = append(docs, randomDoc(rng, o))
			}
			cases := []Case{}
			// at and beyond the limit of the file format: an idle track's end-of-track delta is the length of the whole piece, so
			// a piece no single note of which is long may still be unwritable on several tracks (written right or refused)
			chd := func(deg string, n int) Inst { return Inst{Deg: deg, Sym: "", Vals: []Frac{{n, 1}}} }
			for _, n := range []int{2, 3, 6} {
				cases = append(cases,
					Case{"doc": Doc{chd("1", 100000), chd("4", 100000), chd("5", 79621)}, "flags": Flags{}, "tracks": n},
					Case{"doc": Doc{chd("1", 100000), chd("4", 100000), chd("5", 79618)}, "flags": Flags{}, "tracks": n},
					Case{"doc": Doc{chd("1", 100000), {Rest: true, Vals: []Frac{{100000, 1}}, BPM: 90}, chd("5", 100000), {Rest: true, Vals: []Frac{{250000, 1}}}, chd("1", 1)}, "flags": Flags{}, "tracks": n},
					Case{"absurd": "4473925", "rest": n == 3, "tracks": n})
			}
			for _, n := range []int{2, 3} {
				longRest := func(t string) Inst { return Inst{Rest: true, Vals: []Frac{{100000, 1}}, Txt: t} }
				cases = append(cases,
					Case{"doc": Doc{chd("1", 1), longRest("a"), longRest("b"), longRest("c"), chd("5", 1)}, "flags": Flags{}, "tracks": n},
					Case{"doc": Doc{chd("1", 1), longRest("a"), {Rest: true, Vals: []Frac{{100000, 1}}, BPM: 80}, {Rest: true, Vals: []Frac{{79000, 1}}, Mrk: "m"}, chd("5", 1)}, "flags": Flags{}, "tracks": n},
					Case{"doc": Doc{{Deg: "1", Sym: "", Vals: []Frac{{140000, 1}}}, {Deg: "4", Sym: "", Vals: []Frac{{140000, 1}}}, {Deg: "5", Sym: "7", Vals: one()}}, "flags": Flags{}, "tracks": n + 4})
			}
			// a chord with 257 / 300 notes (a user chord), after a rest and before another chord
			for _, n := range []int{257, 300} {
				for _, tr := range []int{1, 2, 5} {
					cases = append(cases, Case{"doc": Doc{{Deg: "1", Sym: "", Vals: one()}, {Rest: true, Vals: []Frac{{3, 2}}}, {Deg: "1", Sym: "big", Vals: []Frac{{2, 1}}}, {Deg: "5", Sym: "", Vals: one()}, {Rest: true, Vals: one()}},
						"flags": Flags{}, "tracks": tr, "bigchord": n})
				}
			}
			// chords far above the MIDI range (whatever becomes of their pitches, time goes on): after a rest, on N tracks
			for _, n := range []int{1, 2, 5} {
				for _, dg := range []string{"50", "47", "b112", "64"} {
					cases = append(cases, Case{"doc": Doc{{Deg: "1", Sym: "", Vals: one()}, {Rest: true, Vals: []Frac{{3, 2}}}, {Deg: dg, Sym: "7", Vals: []Frac{{2, 1}}}, {Rest: true, Vals: one()}, {Deg: "5", Sym: "", Vals: one()}},
						"flags": Flags{}, "tracks": n})
				}
			}
			// more tracks than any worker pool or block size a writer might use
			for _, n := range []int{1027, 2050} {
				cases = append(cases, Case{"doc": docs[1], "flags": Flags{}, "tracks": n}, Case{"doc": docs[3], "flags": Flags{}, "tracks": n})
			}
			for i, d := range docs {
				for j, n := range ns {
					if i >= 5 && !c.quick() && (i+j)%2 == 1 { // thorough: half of the (doc, N) pairs of the random part
						continue
					}
					cases = append(cases, Case{"doc": d, "flags": Flags{}, "tracks": n, "debug": (i+j)%5 == 0})
				}
			}
			return cases
		},
		Exec: writeExec(true),
	})

	// ---------------------------------------------------------------- C07
	register("c07", Def{
		Debug: true,
		Rule: "seeded documents with bpm / meter / key / dynamic / txt / lic / mrk present or absent on every instance (on rests and after rests too), all 28 keys, all 6 dynamics, UTF-8 texts, " +
			"x seeded flag subsets (--bpm --meter --velocity --key); plus one document per key and a document walking through all dynamics; bpm in 4..60,000,000, meter n/2^k; distinct = (document, flags)",
		Gen: func(c *Ctx) []Case {
			rng := rand.New(rand.NewSource(c.Seed))
			n := 400
			if !c.quick() {
				n = 5000
			}
			cases := []Case{}
			for _, k := range supportedKeys {
				cases = append(cases, Case{"doc": Doc{{Deg: "1", Sym: "", Vals: one(), Key: k}, {Rest: true, Vals: one()}, {Deg: "2", Sym: "m", Vals: one(), Key: k}}, "flags": Flags{}, "tracks": 1})
				cases = append(cases, Case{"doc": Doc{{Deg: "1", Sym: "", Vals: one()}}, "flags": Flags{Key: k}, "tracks": 1})
			}
			dyn := Doc{}
			for _, v := range []string{"ff", "pp", "f", "p", "mf", "mp", "pp", "p", "mp", "mf", "f", "ff"} {
				dyn = append(dyn, Inst{Deg: "1", Sym: "", Vals: one(), Vel: v}, Inst{Deg: "5", Sym: "", Vals: one()})
			}
			cases = append(cases, Case{"doc": dyn, "flags": Flags{}, "tracks": 1})
			for _, v := range dynamics {
				cases = append(cases, Case{"doc": Doc{{Deg: "1", Sym: "", Vals: one()}, {Deg: "1", Sym: "", Vals: one(), Vel: "mf"}}, "flags": Flags{Vel: v}, "tracks": 1})
			}
			// instances repeated word for word (each repetition announces its settings again), written out and as YAML aliases
			for _, st := range []int{0, 7, 4, 5, 6} {
				intro := Inst{Deg: "1", Sym: "m7", Vals: []Frac{{1, 2}}, BPM: 96, Key: "Eb", Vel: "mp", Mrk: "intro", Meter: &Frac{6, 8}}
				fill := Inst{Deg: "5", Sym: "", Vals: one()}
				d := Doc{intro, fill, intro, {Rest: true, Vals: one(), Txt: "x"}, fill, intro, {Rest: true, Vals: one(), Txt: "x"}}
				d[0].Style = st
				cases = append(cases, Case{"doc": d, "flags": Flags{}, "tracks": 1 + st%3})
			}
			// every supported key announced in one piece, then the first ones again (more distinct signatures than any small table)
			{
				d := Doc{}
				for i := 0; i < 28+6; i++ {
					d = append(d, Inst{Deg: "1", Sym: "", Vals: one(), Key: supportedKeys[(i*5)%28]})
					if i%3 == 0 {
						d = append(d, Inst{Rest: true, Vals: []Frac{{1, 2}}})
					}
				}
				cases = append(cases, Case{"doc": d, "flags": Flags{}, "tracks": 1}, Case{"doc": d, "flags": Flags{Key: "F#"}, "tracks": 3})
			}
			// tempi at and beyond what the event can carry (24 bits of microseconds per quarter note)
			for _, b := range []int{1, 2, 3, 4, 5, 59999999, 60000000, 60000001, 120000000, 1000000000} {
				cases = append(cases,
					Case{"doc": Doc{{Deg: "1", Sym: "", Vals: one(), BPM: b}, {Deg: "5", Sym: "", Vals: one()}}, "flags": Flags{}, "tracks": 1},
					Case{"doc": Doc{{Deg: "1", Sym: "", Vals: one()}, {Rest: true, Vals: one(), BPM: b}, {Deg: "5", Sym: "", Vals: one()}}, "flags": Flags{}, "tracks": 2},
					Case{"doc": Doc{{Deg: "1", Sym: "", Vals: one(), BPM: 90}}, "flags": Flags{BPM: b}, "tracks": 1})
			}
			// consecutive keys that share a tonic pitch and a mode but not a signature (enharmonic moves), and a key restated
			for _, pr := range [][2]string{{"F#", "Gb"}, {"Gb", "F#"}, {"C#", "Db"}, {"Db", "C#"}, {"D#m", "Ebm"}, {"Ebm", "D#m"}, {"B", "Cb"}, {"Cb", "B"}, {"G#m", "G#m"}, {"C", "Am"}, {"A", "F#m"}} {
				cases = append(cases,
					Case{"doc": Doc{{Deg: "1", Sym: "", Vals: one(), Key: pr[0]}, {Deg: "4", Sym: "", Vals: one(), Key: pr[1]}, {Deg: "5", Sym: "", Vals: one(), Key: pr[0]}}, "flags": Flags{}, "tracks": 1},
					Case{"doc": Doc{{Deg: "1", Sym: "", Vals: one()}, {Rest: true, Vals: one(), Key: pr[1]}, {Deg: "5", Sym: "", Vals: one()}}, "flags": Flags{Key: pr[0]}, "tracks": 2})
			}
			// time signatures at and beyond what the event can carry (one byte for the numerator, one for the exponent)
			for _, m := range []Frac{{255, 4}, {256, 4}, {300, 4}, {257, 8}, {4, 128}, {4, 256}, {4, 512}, {3, 1}, {1, 1}, {255, 128}, {65536, 4}, {4, 65536},
				{4, 3}, {5, 6}, {7, 12}, {6, 9}, {2, 255}, {3, 127}, {12, 24}} { // (denominators that are no note value: not a power of two)
				mm := m
				cases = append(cases,
					Case{"doc": Doc{{Deg: "1", Sym: "", Vals: one(), Meter: &mm}, {Deg: "5", Sym: "", Vals: one()}}, "flags": Flags{}, "tracks": 1},
					Case{"doc": Doc{{Deg: "1", Sym: "", Vals: one()}, {Rest: true, Vals: one()}, {Deg: "5", Sym: "", Vals: one(), Meter: &mm}}, "flags": Flags{}, "tracks": 2},
					Case{"doc": Doc{{Deg: "1", Sym: "", Vals: one()}}, "flags": Flags{Meter: fmt.Sprintf("%d/%d", m.N, m.D)}, "tracks": 1})
			}
			// every subset of the four override flags, on a document that sets everything on its first and on a later instance
			full := Doc{{Deg: "1", Sym: "", Vals: one(), BPM: 150, Meter: &Frac{3, 4}, Vel: "pp", Key: "Eb", Txt: "first"},
				{Rest: true, Vals: []Frac{{1, 2}}}, {Deg: "4", Sym: "m", Vals: one()},
				{Deg: "5", Sym: "7", Vals: one(), BPM: 60, Meter: &Frac{6, 8}, Vel: "f", Key: "F#m", Mrk: "later"}, {Deg: "1", Sym: "", Vals: one()}}
			bare := Doc{{Deg: "1", Sym: "", Vals: one()}, {Deg: "5", Sym: "", Vals: one()}}
			for mask := 0; mask < 16; mask++ {
				fl := Flags{}
				if mask&1 != 0 {
					fl.BPM = 77
				}
				if mask&2 != 0 {
					fl.Meter = "5/8"
				}
				if mask&4 != 0 {
					fl.Vel = "ff"
				}
				if mask&8 != 0 {
					fl.Key = "Abm"
					fl.Key = "Bbm"
				}
				cases = append(cases, Case{"doc": full, "flags": fl, "tracks": 1}, Case{"doc": bare, "flags": fl, "tracks": 1 + mask%3})
			}
			for i := 0; i < n; i++ {
				o := GenOpt{MaxLen: 10, RestP: 0.3, KeyP: 0.3, SettingP: 0.3, TextP: 0.35, Fractions: rng.Intn(2) == 0, MultiVals: true, MaxDeg: 7, BassP: 0.1,
					Syms: []string{"", "m", "7"}, Texts: sampleTexts}
				tr := 1
				if rng.Intn(5) == 0 {
					tr = 2 + rng.Intn(4)
				}
				cases = append(cases, Case{"doc": randomDoc(rng, o), "flags": randomFlags(rng, 0.3), "tracks": tr})
			}
			return cases
		},
		Exec: writeExec(false),
	})
}
