package main

import (
	"fmt"
	"gopkg.in/yaml.v3"
	"math/rand"
	"os"
	"regexp"
	"strings"

	"verif/harness/internal/run"
)

var stageArgs = map[string][]string{
	"text parse": {"text", "parse"}, "text conv degree": {"text", "conv", "degree"}, "text conv syllable": {"text", "conv", "syllable"},
	"write": {"write"}, "write event": {"write", "event"}, "write parse": {"write", "parse"}, "write conv": {"write", "conv", "-c", "cmt"},
	"info key describe": {"info", "key", "describe"}, "info key conv": {"info", "key", "conv", "-c", "d"},
}
var writeStages = []string{"write", "write event", "write parse", "write conv"}

func runRec(r run.Result, cmd, nonsense, channel, note string, ofileLen int) Rec {
	return Rec{"kind": "run", "cmd": cmd, "nonsense": nonsense, "channel": channel, "note": note, "terminated": !r.TimedOut, "panic": r.Panic,
		"signal": r.Signal, "exit": r.Exit, "stdoutLen": len(r.Stdout), "stderrLen": len(r.Stderr), "ofileLen": ofileLen, "wallMs": r.WallMs}
}

const validYAML = "- chord: {degree: \"1\", name: \"\"}\n  values: [\"1\"]\n- chord: {degree: \"5\", name: \"7\"}\n  values: [\"2\"]\n"

type cell struct {
	nonsense, channel, stage string
	extra                    []string // extra args
	stdin                    string
	pipeFrom                 string // for channel "piped": the text conv stage whose output is piped in
	note                     string
}

func matrixCells() []cell {
	cells := []cell{}
	textBoth := func(n string, syl, deg []string) {
		for _, t := range syl {
			cells = append(cells, cell{n, "text", "text conv syllable", nil, t, "", t})
		}
		for _, t := range deg {
			cells = append(cells, cell{n, "text", "text conv degree", nil, t, "", t})
		}
	}
	textBoth("zero duration", []string{"C[0]", "C[1,0]", "C[1] R[0]", "C[0/4]"}, []string{"1[0]", "1[2,0]", "R[0] 1[1]"})
	textBoth("zero denominator", []string{"C[1/0]", "C[1] G[3/0]"}, []string{"1[1/0]", "R[1/0] 2[1]"})
	textBoth("zero denominator", []string{"C[1]{mtr=3/0}", "C[1] R[1]{mtr=4/0}"}, []string{"1[1]{mtr=3/0}", "1[1]{mtr=0/0}"})
	textBoth("tempo 0", []string{"C[1]{bpm=0}", "C[1] R[1]{bpm=0}"}, []string{"1[1]{bpm=0}", "1[1]{bpm=00}"})
	textBoth("unknown dynamic", []string{"C[1]{vel=zz}", "C[1]{vel=fff}"}, []string{"1[1]{vel=zz}", "1[1] 2[1]{vel=pianissimo}"})
	longTail := strings.Repeat(" C[1,1/2]{a=b}", 40)
	textBoth("mixed notation", []string{"C[1] 2[1]", "C/3[1]", "2[1] C[1]", "C[1] 2[1]" + longTail}, []string{"C[1] 2[1]", "1/E[1]", "2[1] C[1]", "1[1] C[1]" + strings.Repeat(" 2[1,1/2]{a=b}", 40)})
	textBoth("malformed key", []string{"C[1]{key=Cmaj7}", "C[1]{key=H}", "C[1]{key=xyzzy Dbb}", "C[1]{key=Dbb}", "C[1]{key=F##m}"}, []string{"1[1]{key=Cmaj7}", "1[1]{key=H}", "1[1]{key=Am7}", "1[1]{key=Dbb}", "1[1]{key=C#b}"})
	for _, st := range []string{"text parse", "text conv degree", "text conv syllable"} {
		for _, t := range []string{"", " \n", ";only a comment\n", "\t"} {
			cells = append(cells, cell{"empty piece", "text", st, nil, t, "", fmt.Sprintf("%q", t)})
		}
	}
	for _, t := range []string{"C[1]{key=E#}", "C[1] R[1]{key=Abm} D[1]", "C[1]{key=Fb}", "C[1]{key=A#m}"} {
		cells = append(cells, cell{"key without scale", "text", "text conv syllable", nil, t, "", t})
	}
	for _, st := range writeStages {
		cells = append(cells, cell{"unknown chord symbol", "piped", st, nil, "C_zork[1]", "text conv syllable", "C_zork[1]"})
		cells = append(cells, cell{"unknown chord symbol", "piped", st, nil, "1[1] 2_m8[1]", "text conv degree", "2_m8[1]"})
		cells = append(cells, cell{"key without scale", "piped", st, nil, "1[1]{key=E#}", "text conv degree", "{key=E#}"})
		cells = append(cells, cell{"key without scale", "piped", st, nil, "1[1] R[1]{key=Abm}", "text conv degree", "{key=Abm}"})
	}
	y := func(body string) string { return "- chord: {degree: \"1\", name: \"\"}\n" + body }
	yamlCases := []struct{ n, doc string }{
		{"zero duration", y("  values: [\"0\"]\n")}, {"zero duration", y("  values: [\"1\", \"0/3\"]\n")}, {"zero duration", "- values: [0]\n"},
		{"zero denominator", y("  values: [\"1/0\"]\n")}, {"zero denominator", validYAML + "- values: [\"2/0\"]\n"},
		{"zero denominator", y("  values: [\"1\"]\n  meter: \"4/0\"\n")}, {"zero denominator", validYAML + "- values: [\"1\"]\n  meter: \"3/0\"\n"},
		{"no durations", y("  values: []\n")}, {"no durations", "- chord: {degree: \"1\", name: \"\"}\n"}, {"no durations", validYAML + "- bpm: 90\n"},
		{"tempo 0", y("  values: [\"1\"]\n  bpm: 0\n")}, {"tempo 0", validYAML + "- values: [\"1\"]\n  bpm: 0\n"},
		{"unknown dynamic", y("  values: [\"1\"]\n  velocity: zz\n")},
		{"unknown chord symbol", "- chord: {degree: \"1\", name: \"zork\"}\n  values: [\"1\"]\n"}, {"unknown chord symbol", validYAML + "- chord: {degree: \"2\", name: \"M\"}\n  values: [\"1\"]\n"},
		{"key without scale", y("  values: [\"1\"]\n  key: \"E#\"\n")}, {"key without scale", validYAML + "- values: [\"1\"]\n  key: Abm\n"},
		{"malformed key", y("  values: [\"1\"]\n  key: Cmaj7\n")}, {"malformed key", y("  values: [\"1\"]\n  key: H\n")}, {"malformed key", y("  values: [\"1\"]\n  key: \"xyzzy Dbb\"\n")}, {"malformed key", y("  values: [\"1\"]\n  key: Dbb\n")}, {"malformed key", y("  values: [\"1\"]\n  key: \"F##\"\n")},
	}
	for _, yc := range yamlCases {
		for _, st := range writeStages {
			cells = append(cells, cell{yc.n, "yaml", st, nil, yc.doc, "", strings.ReplaceAll(yc.doc, "\n", "\\n")})
		}
	}
	// the offence sits behind more than a mebibyte of valid instances (a comment straddles the 2^20 mark)
	big := strings.Repeat(validYAML, (1<<20)/len(validYAML)-2) + "# " + strings.Repeat("c", 3*len(validYAML)) + "\n"
	for _, st := range writeStages {
		cells = append(cells, cell{"tempo 0", "yaml", st, nil, big + "- values: [\"1\"]\n  bpm: 0\n", "", "1 MiB of instances, then bpm: 0"})
		cells = append(cells, cell{"unknown chord symbol", "yaml", st, nil, big + "- chord: {degree: \"1\", name: \"zork\"}\n  values: [\"1\"]\n", "", "1 MiB of instances, then zork"})
	}
	// a piece without any chord: nonsense is nonsense even when no chord needs it
	restsOnly := "- values: [\"1\"]\n- values: [\"2\"]\n  bpm: 90\n"
	for _, m := range []string{"zzz", "cmt,zzz"} {
		cells = append(cells, cell{"unknown modifier", "flag", "write conv", []string{"-c", m}, restsOnly, "", "rests only, -c " + m})
	}
	for _, st := range writeStages {
		cells = append(cells, cell{"unknown dynamic", "flag", st, []string{"--velocity", "zz"}, restsOnly, "", "rests only, --velocity zz"})
		cells = append(cells, cell{"key without scale", "flag", st, []string{"--key", "E#"}, restsOnly, "", "rests only, --key E#"})
		cells = append(cells, cell{"tempo 0", "yaml", st, nil, restsOnly + "- values: [\"1\"]\n  bpm: 0\n", "", "rests only, bpm: 0"})
	}
	for _, st := range writeStages { // an empty entry is not an instance (regression of a repaired defect, every write command)
		for _, d := range []string{"- \n- values: [1]\n", validYAML + "- ~\n", "-\n"} {
			cells = append(cells, cell{"no durations", "yaml", st, nil, d, "", fmt.Sprintf("%q", d)})
		}
	}
	for _, st := range []string{"write", "write event"} {
		for _, d := range []string{"[]\n", "", "# nothing\n", "---\n"} {
			cells = append(cells, cell{"empty piece", "yaml", st, nil, d, "", fmt.Sprintf("%q", d)})
		}
	}
	for _, st := range writeStages {
		for _, v := range []string{"zz", "fff"} { // (not: a known word in other letter case -- reading it is no nonsense)
			cells = append(cells, cell{"unknown dynamic", "flag", st, []string{"--velocity", v}, validYAML, "", "--velocity " + v})
		}
		for _, k := range []string{"E#", "Abm", "Fb"} {
			cells = append(cells, cell{"key without scale", "flag", st, []string{"--key", k}, validYAML, "", "--key " + k})
		}
		for _, k := range []string{"Cmaj7", "H", "xyzzy Dbb", "Dbb", "F##", "Bbbm"} {
			cells = append(cells, cell{"malformed key", "flag", st, []string{"--key", k}, validYAML, "", "--key " + k})
		}
		for _, a := range [][]string{{"--bpm", "0"}, {"--bpm=0"}, {"--velocity", ""}, {"--key", ""}, {"--meter", ""}} {
			cells = append(cells, cell{"no override", "flag", st, a, validYAML, "", strings.Join(a, " ")})
		}
		for _, a := range [][]string{{"--meter", "4/0"}, {"--meter=3/0"}} {
			cells = append(cells, cell{"zero denominator", "flag", st, a, validYAML, "", strings.Join(a, " ")})
		}
	}
	for _, k := range []string{"E#", "Abm", "G#"} {
		cells = append(cells, cell{"key without scale", "flag", "text conv syllable", []string{"--key", k}, "C[1]", "", "--key " + k})
		cells = append(cells, cell{"key without scale", "flag", "info key describe", []string{"--key", k}, "", "", "--key " + k})
		cells = append(cells, cell{"key without scale", "flag", "info key conv", []string{"--key", k}, "", "", "--key " + k})
	}
	for _, k := range []string{"Cmaj7", "H", "xyzzy Dbb", "Dbb", "C#b"} {
		cells = append(cells, cell{"malformed key", "flag", "text conv syllable", []string{"--key", k}, "C[1]", "", "--key " + k})
		cells = append(cells, cell{"malformed key", "flag", "info key describe", []string{"--key", k}, "", "", "--key " + k})
		cells = append(cells, cell{"malformed key", "flag", "info key conv", []string{"--key", k}, "", "", "--key " + k})
	}
	for _, m := range []string{"zzz", "cmt,zzz"} {
		cells = append(cells, cell{"unknown modifier", "flag", "write conv", []string{"-c", m}, validYAML, "", "-c " + m})
	}
	return cells
}

var exploreCmds = [][]string{
	{"text", "parse"}, {"text", "conv", "degree"}, {"text", "conv", "syllable"}, {"text", "conv", "syllable", "--key", "Ebm"},
	{"write"}, {"write", "event"}, {"write", "parse"}, {"write", "conv", "-c", "cmt"}, {"write", "--track", "3"},
}

var textCorpus = []string{
	"C[1] G_7/B[1,1/2]{key=Am, txt=hi there} R[2]\n", "2m7b5[1/3] 5_7[2/3]{bpm=120,vel=ff,mtr=3/4} 1maj7[4]\n",
	"; comment\nBb_7/D[1]{lic=la la}\tF#m[2]\nR[1]{mrk=end}", "C♯dim/E♭[1] A_9[007]\n",
}
var yamlCorpus = []string{
	validYAML,
	"---\n" + validYAML + "---\n- ~\n- values: [\"1\"]\n...\n",
	"- &a {chord: {degree: \"1\", name: \"\"}, values: [\"1\"]}\n- *a\n- <<: *a\n  bpm: 90\n- values: &v [\"1\", \"1/2\"]\n- values: *v\n  meta: &m {txt: x}\n- {values: *v, meta: *m}\n",
	"%YAML 1.2\n---\n- chord: {degree: \"1\", name: \"\"}\n  values:\n  - \"1\"\n  - \"2\"\n--- \n- ~\n",
	"- chord:\n    degree: \"b3\"\n    name: m7\n    base: \"5\"\n  values: [\"1\", \"1/2\"]\n  bpm: 120\n  velocity: ff\n  meter: \"3/4\"\n  key: Ebm\n  meta:\n    txt: \"hello\"\n    lic: \"é\"\n- values: [2]\n",
	"- {chord: {degree: \"#4\", name: MajorNinthAlias1}, values: [\"7/960\"], key: \"C#\"}\n- {values: [\"1/3\", \"1/3\", \"1/3\"], meta: {mrk: x}}\n",
}

func init() {
	register("c09", Def{
		Rule: "matrix: every (nonsense kind x delivery channel x interpreting stage) cell of Runs.tla with several concrete renderings (text metadata / YAML field / flag value / piped through text conv), " +
			"plus the 'no override' flag defaults; exploration: seeded byte-level inputs (valid corpus truncated at every byte offset, byte mutations, random bytes, invalid UTF-8, over-long inputs) on stdin " +
			"and as FILE for every subcommand, x seeded flag values, x missing / unreadable / inconsistent dictionary files, every run under a watchdog; distinct = distinct (command line, input)",
		Key: func(r Rec) string { return fmt.Sprint(r["cmd"], r["note"], r["nonsense"], r["channel"]) },
		Gen: func(c *Ctx) []Case {
			cases := []Case{{"kind": "matrixlist"}}
			voc := crdVocabulary(c)
			for i, ce := range matrixCells() {
				if voc.knows(ce) {
					continue // what is nonsense depends on what crd knows: a key, dynamic or symbol crd itself lists is not "unknown"
				}
				cases = append(cases, Case{"kind": "cell", "i": i})
			}
			rng := rand.New(rand.NewSource(c.Seed))
			n := 1500
			if !c.quick() {
				n = 40000
			}
			// truncations at every byte offset of the corpus
			for ci, t := range textCorpus {
				for off := 0; off <= len(t); off++ {
					if c.quick() && off%2 == 1 {
						continue
					}
					cases = append(cases, Case{"kind": "x", "cmd": exploreCmds[(ci+off)%4], "stdin": []byte(t[:off]), "note": fmt.Sprintf("text%d[:%d]", ci, off)})
				}
			}
			for ci, t := range yamlCorpus {
				for off := 0; off <= len(t); off++ {
					if c.quick() && off%3 != 0 {
						continue
					}
					cases = append(cases, Case{"kind": "x", "cmd": exploreCmds[4+(ci+off)%5], "stdin": []byte(t[:off]), "note": fmt.Sprintf("yaml%d[:%d]", ci, off)})
				}
			}
			// every single-line omission of a block-form document (each field on its own line, both orders of the chord keys),
			// on every write command: a missing field is either a default or a refusal, never a crash or garbage
			blocks := []string{
				"- chord:\n    name: m7\n    degree: \"b3\"\n    base: \"5\"\n  values:\n    - \"1\"\n    - \"1/2\"\n  bpm: 120\n  velocity: ff\n  meter: \"3/4\"\n  key: Ebm\n  meta:\n    txt: \"hello\"\n- values:\n    - \"2\"\n",
				"- values:\n    - \"1\"\n  chord:\n    degree: \"1\"\n    name: \"\"\n- chord:\n    base: \"3\"\n    degree: \"5\"\n    name: \"7\"\n  values:\n    - \"2\"\n",
			}
			for bi, b := range blocks {
				lines := strings.SplitAfter(b, "\n")
				for li := range lines {
					if lines[li] == "" {
						continue
					}
					t := strings.Join(append(append([]string{}, lines[:li]...), lines[li+1:]...), "")
					for ci := 4; ci < len(exploreCmds); ci++ {
						cases = append(cases, Case{"kind": "x", "cmd": exploreCmds[ci], "stdin": []byte(t), "note": fmt.Sprintf("block%d-line%d", bi, li)})
					}
				}
			}
			junk := []string{"\xff\xfe", "\x00", "\xc3", "\xe2\x99", "{", "}", "[", "]", "_", ";", "=", ",", "/", "#", "♭", "0", "9999999999999999999999", "19999999999999999", "18446744073709551615", "4294967296", "65536", "R", "C", "\n", " ", "- ", ": ", "\"", "'", "!!binary ", "&a ", "*a ", "|", ">", "%", "\t"}
			for i := 0; i < n; i++ {
				cmd := exploreCmds[rng.Intn(len(exploreCmds))]
				var base string
				if cmd[0] == "text" {
					base = textCorpus[rng.Intn(len(textCorpus))]
				} else {
					base = yamlCorpus[rng.Intn(len(yamlCorpus))]
				}
				b := []byte(base)
				switch rng.Intn(6) {
				case 0: // random bytes
					b = make([]byte, rng.Intn(64))
					rng.Read(b)
				case 1: // over-long
					b = []byte(strings.Repeat(base, 200+rng.Intn(800)))
				default: // 1..4 mutations
					for k := 0; k < 1+rng.Intn(4) && len(b) > 0; k++ {
						p := rng.Intn(len(b))
						switch rng.Intn(4) {
						case 0:
							b = append(b[:p], b[p+1:]...)
						case 1:
							j := junk[rng.Intn(len(junk))]
							b = append(b[:p], append([]byte(j), b[p:]...)...)
						case 2:
							b[p] = byte(rng.Intn(256))
						case 3:
							q := rng.Intn(len(b))
							b[p], b[q] = b[q], b[p]
						}
					}
				}
				cs := Case{"kind": "x", "cmd": cmd, "stdin": b, "note": fmt.Sprintf("mut%d", i), "asFile": rng.Intn(4) == 0}
				// seeded flag values
				if rng.Intn(3) == 0 && cmd[0] == "write" {
					fl := [][]string{{"--bpm", "0"}, {"--bpm", "1"}, {"--bpm", "4294967295"}, {"--bpm", "-1"}, {"--bpm", "abc"}, {"--meter", "0"}, {"--meter", "a/b"}, {"--meter", "4/0"}, {"--meter", "3/4/5"},
						{"--meter", "7/8"}, {"--velocity", "p"}, {"--velocity", "x"}, {"--key", "D#m"}, {"--key", "B#"}, {"--key", "♭"}, {"--track", "-1"}, {"--track", "0"}, {"--track", "70000"}, {"--track", "x"},
						{"--program", "300"}, {"--program", "127"}, {"--instrument", ""}, {"--instrument", strings.Repeat("i", 300)}, {"--attr", "/nonexistent"}, {"--chord", "/"}, {"--chord", "/dev/null"},
						{"-o", "/nonexistent/dir/x.mid"}, {"--debug"}, {"--nosuchflag"}, {"extra", "args"}}
					cs["flags"] = fl[rng.Intn(len(fl))]
				}
				cases = append(cases, cs)
			}
			// other commands with seeded flag values
			others := [][]string{{"info", "key", "describe", "--key", ""}, {"info", "key", "conv", "--key", "C", "-c", ""}, {"info", "key", "conv", "--key", "Cb", "-c", "xyz"}, {"info", "key", "conv", "--key", "C", "-c", "ép"}, {"info", "key", "conv", "-c", "♯♭"}, {"info", "key", "conv", "--key", "G", "-c", "d→s"},
				{"info", "key", "conv", "-c", strings.Repeat("dr", 5000)}, {"info", "key", "list", "extra"}, {"info", "attr", "describe", "-t", "Nope"}, {"info", "attr", "describe", "-t", "Major3", "-r", "H"},
				{"info", "attr", "describe", "-t", "Major3", "-r", ""}, {"info", "chord", "describe", "-t", ""}, {"info", "chord", "describe", "-t", "C["}, {"info", "chord", "describe", "-t", "R"},
				{"info", "chord", "describe", "-t", "C_nope"}, {"info", "chord", "describe", "-t", "1m"}, {"info", "chord", "describe", "-t", "C/E"}, {"info", "chord", "describe", "-t", "C D"},
				{"gen", "attr", "-d", "0"}, {"gen", "attr", "-d", "1"}, {"gen", "attr", "-d", "3000"}, {"gen", "attr", "-d", "-1"}, {"gen", "attr", "-d", "x"}, {"midi", "port", "out"}, {"midi", "port", "in"},
				{"nosuch"}, {}, {"--help"}, {"text"}, {"text", "conv"}, {"write", "a", "b"}, {"text", "parse", "/nonexistent"}, {"text", "parse", "/"}, {"write", "/dev/null"}, {"write", "event", "/nonexistent.yml"}}
			// every note / key spelling with up to two (thorough: three) accidental marks of any kind, in any mixture, wherever a
			// flag takes a note or a key: each is understood or refused, never a crash
			marks := []string{""}
			depth := 2
			if !c.quick() {
				depth = 3
			}
			for d, layer := 0, []string{""}; d < depth; d++ {
				next := []string{}
				for _, m := range layer {
					for _, a := range []string{"#", "b", "♯", "♭"} {
						next = append(next, m+a)
					}
				}
				marks = append(marks, next...)
				layer = next
			}
			for _, l := range []string{"C", "F", "B", "H", "c"} {
				for _, m := range marks {
					if len([]rune(m)) < 2 && l != "H" && l != "c" {
						continue // the ordinary spellings are everybody's daily bread
					}
					others = append(others, []string{"info", "attr", "describe", "-t", "Major3", "-r", l + m}, []string{"info", "key", "describe", "--key", l + m},
						[]string{"info", "key", "conv", "--key", l + m + "m", "-c", "d"}, []string{"info", "chord", "describe", "-t", l + m + "m7"})
				}
			}
			for i, o := range others {
				cases = append(cases, Case{"kind": "x", "cmd": o, "stdin": []byte{}, "note": fmt.Sprintf("other%d", i)})
			}
			// dictionary files: missing names, wrong types, binary junk
			dicts := []string{"- name: A\n", "- {name: A, meta: {display: a}}\n", "name: A\n", "- 1\n- 2\n", "\xff\xfe\x00", "- name: A\n  meta: {display: a}\n  attributes: 7\n", "[]", "",
				"- name: A\n  meta: {display: a}\n  extends: A\n",
				"- {name: T, meta: {display: t}, extends: A}\n- {name: A, meta: {display: a}, extends: B}\n- {name: B, meta: {display: b}, extends: A}\n",
				"- {name: T, meta: {display: t}, extends: U}\n- {name: U, meta: {display: u}, extends: V}\n- {name: V, meta: {display: v}, extends: V}\n", "- {name: A, meta: {display: a}, attributes: [Nope]}\n", "- {name: \"\", degree: \"3\"}\n", "- {name: X, degree: \"zz\"}\n", "- {name: X}\n"}
			for i, d := range dicts {
				for _, fl := range []string{"--chord", "--attr"} {
					for _, cmd := range [][]string{{"write"}, {"info", "chord", "list"}, {"info", "attr", "list"}, {"info", "attr", "describe", "-t", "Major3"}, {"info", "chord", "describe", "-t", "Cm"}} {
						cases = append(cases, Case{"kind": "x", "cmd": cmd, "stdin": []byte(validYAML), "note": fmt.Sprintf("dict%d%s", i, fl), "dictFlag": fl, "dict": []byte(d)})
					}
				}
			}
			return cases
		},
		Exec: func(c *Ctx, k Case) []Rec {
			switch cs(k, "kind") {
			case "matrixlist":
				cells := [][]string{}
				for _, ce := range matrixCells() {
					cells = append(cells, []string{ce.nonsense, ce.channel, ce.stage})
				}
				return []Rec{{"kind": "matrix", "cells": cells}}
			case "cell":
				ce := matrixCells()[ci(k, "i")]
				stdin := []byte(ce.stdin)
				if ce.channel == "piped" {
					r0 := c.crd(stageArgs[ce.pipeFrom], stdin)
					if r0.Exit != 0 || len(r0.Stdout) == 0 {
						// text conv already refused it: that is the first interpreting command; nothing reaches write
						return []Rec{runRec(r0, ce.pipeFrom, ce.nonsense, "text-refused-early", ce.note, 0)}
					}
					stdin = r0.Stdout
				}
				args := append(append([]string{}, stageArgs[ce.stage]...), ce.extra...)
				if ce.nonsense == "unknown modifier" {
					args = append([]string{"write", "conv"}, ce.extra...)
				}
				r := c.crd(args, stdin)
				return []Rec{runRec(r, ce.stage, ce.nonsense, ce.channel, ce.note, 0)}
			}
			// exploration
			var cmd []string
			remarshal(k["cmd"], &cmd)
			var stdin []byte
			remarshal(k["stdin"], &stdin)
			args := append([]string{}, cmd...)
			if fl := css(k, "flags"); len(fl) > 0 {
				args = append(args, fl...)
			}
			var tmp []string
			defer func() {
				for _, f := range tmp {
					os.Remove(f)
				}
			}()
			if df := cs(k, "dictFlag"); df != "" {
				var d []byte
				remarshal(k["dict"], &d)
				f := c.writeTemp(fmt.Sprintf("dict%d.yml", nextID()), string(d))
				tmp = append(tmp, f)
				args = append(args, df, f)
			}
			if cb(k, "asFile") {
				f := c.writeTemp(fmt.Sprintf("in%d", nextID()), string(stdin))
				tmp = append(tmp, f)
				args = append(args, f)
				stdin = nil
			}
			r := c.crd(args, stdin)
			return []Rec{runRec(r, strings.Join(cmd, " "), "", "", cs(k, "note"), 0)}
		},
	})
}

// vocabulary: the keys, dynamics and chord names / symbols the binary under test itself lists. "A key crd has no scale
// for", "an unknown dynamic", "an unknown chord symbol" are relative to it: a crd that learns Abm or fff is not wrong.
type vocabulary struct{ keys, dynamics, chords map[string]bool }

var (
	reCellKey = regexp.MustCompile(`(?:key=|key: "?|--key[ =])([^}",\n]*)`)
	reCellVel = regexp.MustCompile(`(?:vel=|velocity: "?|--velocity[ =])([^}",\n]*)`)
	reCellSym = regexp.MustCompile(`(?:_|name: "?)([A-Za-z0-9#+-]+)`)
)

func crdVocabulary(c *Ctx) vocabulary {
	v := vocabulary{map[string]bool{}, map[string]bool{}, map[string]bool{}}
	var scales []yScale
	if r := c.crd([]string{"info", "key", "list"}, nil); yaml.Unmarshal(r.Stdout, &scales) == nil {
		for _, s := range scales {
			v.keys[s.Key] = true
		}
	}
	if r := c.crd([]string{"write", "--help"}, nil); true {
		if m := regexp.MustCompile(`override velocity: ([A-Za-z, ]+)`).FindSubmatch(append(r.Stdout, r.Stderr...)); m != nil {
			for _, d := range strings.FieldsFunc(string(m[1]), func(r rune) bool { return r == ',' || r == ' ' }) {
				v.dynamics[d] = true
			}
		}
	}
	if list, ok := builtinChordList(c); ok {
		for _, b := range list {
			v.chords[b.Name], v.chords[b.Meta.Display] = true, true
		}
	}
	return v
}

func (v vocabulary) knows(ce cell) bool {
	text := ce.stdin + " " + strings.Join(ce.extra, " ")
	switch ce.nonsense {
	case "key without scale", "malformed key":
		for _, m := range reCellKey.FindAllStringSubmatch(text, -1) {
			if v.keys[strings.TrimSpace(m[1])] {
				return true
			}
		}
	case "unknown dynamic":
		for _, m := range reCellVel.FindAllStringSubmatch(text, -1) {
			if v.dynamics[strings.TrimSpace(m[1])] {
				return true
			}
		}
	case "unknown chord symbol":
		for _, m := range reCellSym.FindAllStringSubmatch(text, -1) {
			if m[1] == "zork" || m[1] == "m8" || m[1] == "M" {
				if v.chords[m[1]] {
					return true
				}
			}
		}
	}
	return false
}
