package main

import (
	"fmt"
	"math/rand"
	"os"
	"regexp"
	"strings"

	"verif/harness/internal/smf"
)

var (
	eventLine = regexp.MustCompile(`^Track (\d+)\t@(\d+)\((\d+)\)\t(\w+)(.*)$`)
	eventKey  = regexp.MustCompile(`key: (\d+)`)
	eventVel  = regexp.MustCompile(`velocity: (\d+)`)
)

func fileRec(b []byte, tracks int) Rec {
	f := smf.Parse(b)
	return Rec{"kind": "file", "b": bytesOf(b), "tracks": tracks, "ev": eventsOf(f), "format": f.Format, "ntracks": f.NTracks,
		"division": f.Division, "readerErr": f.Err}
}

func init() {
	register("c08", Def{
		Debug: true,
		Rule: "seeded random instance documents (chords/rests, fractions, settings, UTF-8 texts, key changes) x --track N x --program x --instrument, written by the real `crd write` " +
			"to stdout and with -o; every file produced is a record (raw bytes + the harness reader's event list); distinct = distinct (document, flags)",
		Gen: func(c *Ctx) []Case {
			n := 260
			if !c.quick() {
				n = 4000
			}
			rng := rand.New(rand.NewSource(c.Seed))
			cases := []Case{}
			tracks := []int{1, 1, 1, 2, 3, 4, 5, 7, 8, 16, 32}
			for i := 0; i < n; i++ {
				o := GenOpt{MaxLen: 1 + rng.Intn(12), RestP: 0.25, KeyP: 0.2, SettingP: 0.2, TextP: 0.3, Fractions: true, MaxDeg: 15, AllMarks: true,
					BassP: 0.3, Syms: append(append([]string{}, chordSymbols...), longChordNames...), Texts: sampleTexts, MultiVals: true}
				d := randomDoc(rng, o)
				cs := Case{"doc": d, "tracks": tracks[rng.Intn(len(tracks))], "program": -1, "instrument": "\x00default", "ofile": rng.Intn(4) == 0,
					"flags": randomFlags(rng, 0.15)}
				if i%7 == 3 { // pitches far above the MIDI range: whatever crd does with them, the file must stay well-formed
					for j := range d {
						if !d[j].Rest && rng.Intn(2) == 0 {
							d[j].Deg = fmt.Sprint(30 + rng.Intn(20))
						}
					}
					cs["doc"] = d
				}
				if i%5 == 2 {
					cs["debug"] = true
				}
				if i%11 == 6 {
					cs["emptyFlags"] = [][]string{{"--velocity"}, {"--key"}, {"--meter"}, {"--velocity", "--key", "--meter"}, {"--instrument"}}[rng.Intn(5)]
				}
				if i%9 == 4 { // a time signature whose denominator is not a power of two: whatever value is written, the file stays a file
					dn := []int{3, 5, 6, 7, 12, 24}[rng.Intn(6)]
					if rng.Intn(2) == 0 {
						fl := caseToFlags(cs["flags"])
						fl.Meter = fmt.Sprintf("%d/%d", 1+rng.Intn(12), dn)
						cs["flags"] = fl
					} else {
						d[rng.Intn(len(d))].Meter = &Frac{1 + rng.Intn(12), dn}
						cs["doc"] = d
					}
				}
				switch rng.Intn(6) {
				case 0:
					cs["program"] = rng.Intn(256)
				case 1:
					cs["instrument"] = []string{"", "Piano", "x", strings.Repeat("long name ", 20), "ピアノ", "Grand Piano é"}[rng.Intn(6)]
				}
				cases = append(cases, cs)
			}
			// track counts at and beyond what an SMF header can declare (16 bits): the file must still say what it holds, or crd must refuse
			for _, tr := range []int{255, 256, 4000, 65535, 65536, 70000} {
				if c.quick() && (tr == 4000 || tr == 65535) {
					continue
				}
				cases = append(cases, Case{"doc": Doc{{Deg: "1", Sym: "7", Vals: []Frac{{1, 1}}}}, "tracks": tr, "program": -1, "instrument": "\x00default", "ofile": false, "flags": Flags{}, "huge": true})
			}
			// more than 65 536 events in one track (11 001 five-note chords on two voice tracks; 33 000 on one)
			{
				big := Doc{}
				for i := 0; i < 11001; i++ {
					big = append(big, Inst{Deg: fmt.Sprint(1 + i%7), Sym: "7", Vals: []Frac{{1, 4}}})
				}
				for _, tr := range []int{3, 2, 16} {
					if c.quick() && tr == 16 {
						continue
					}
					cases = append(cases, Case{"doc": big, "tracks": tr, "program": -1, "instrument": "\x00default", "ofile": false, "flags": Flags{}, "huge": true})
				}
			}
			// durations at and beyond what a delta time can hold (4-byte variable-length quantity = 2^28 - 1 ticks = 279,620 beats):
			// whatever is written must still be a well-formed file (a refusal leaves no file, which claims nothing)
			long := func(n int) Inst { return Inst{Deg: "1", Sym: "", Vals: []Frac{{n, 1}}} }
			for i, d := range []Doc{{long(279620)}, {long(279621)}, {long(1), {Rest: true, Vals: []Frac{{300000, 1}}}, long(1)}, {long(100000), long(100000), long(79621)},
				{long(4473925)}, {long(1), {Rest: true, Vals: []Frac{{4473925, 1}}}}, {long(139810), long(139810)}, {long(17476), long(17476), long(244668)}} {
				for _, tr := range []int{1, 2, 5} {
					cases = append(cases, Case{"doc": d, "tracks": tr, "program": -1, "instrument": "\x00default", "ofile": (i+tr)%3 == 0, "flags": Flags{}})
				}
			}
			if T := refDivision(c); T > 0 { // to the tick: 2^28 - 1 is the last delta four bytes hold
				for _, n := range []int{1<<28 - 2, 1<<28 - 1, 1 << 28, 1<<28 + 1} {
					cases = append(cases, Case{"doc": Doc{{Rest: true, Vals: []Frac{{n, T}}}, long(1)}, "tracks": 1, "program": -1, "instrument": "\x00default", "ofile": false, "flags": Flags{}},
						Case{"doc": Doc{{Deg: "1", Sym: "", Vals: []Frac{{n, T}}}, long(1)}, "tracks": 2, "program": -1, "instrument": "\x00default", "ofile": n%2 == 0, "flags": Flags{}})
				}
			}
			// every program number once, on a tiny document
			if !c.quick() {
				for p := 0; p < 256; p++ {
					cases = append(cases, Case{"doc": Doc{{Deg: "1", Sym: "", Vals: []Frac{{1, 1}}}}, "tracks": 1 + p%3, "program": p, "instrument": "\x00default", "ofile": false, "flags": Flags{}})
				}
			}
			return cases
		},
		Exec: func(c *Ctx, k Case) []Rec {
			d := caseToDoc(k["doc"])
			fl := caseToFlags(k["flags"])
			args := []string{"write", "--track", fmt.Sprint(ci(k, "tracks"))}
			args = append(args, fl.Args()...)
			if p := ci(k, "program"); p >= 0 {
				args = append(args, "--program", fmt.Sprint(p))
			}
			if ins := cs(k, "instrument"); ins != "\x00default" {
				args = append(args, "--instrument", ins)
			}
			if cb(k, "debug") {
				args = append(args, "--debug")
			}
			for _, ef := range css(k, "emptyFlags") { // a string flag given as the empty string: whatever it means, the file stays a file
				args = append(args, ef, "")
			}
			var out []byte
			success := false
			if cb(k, "ofile") {
				// the output file already exists and is longer than the result
				path := c.writeTemp(fmt.Sprintf("o%d.mid", nextID()), strings.Repeat("stale bytes of an earlier, longer file ", 3000))
				r := c.crd(append(args, "-o", path), d.YAML())
				if r.Exit == 0 && !r.TimedOut && !r.Panic {
					out, _ = os.ReadFile(path)
					success = true
				}
				os.Remove(path)
			} else {
				r := c.crd(args, d.YAML())
				if !r.TimedOut && !r.Panic {
					out = r.Stdout
					success = r.Exit == 0
				}
			}
			if !success { // C08 speaks of what is output on success
				return []Rec{{"kind": "nofile"}}
			}
			// (a run that reports success and leaves nothing is judged like any other output: zero bytes are not a file)
			if cb(k, "huge") {
				// too many bytes to walk one TLC state per byte: the strict reader (bound to SMF.tla by every other record) summarises it
				f := smf.Parse(out)
				eots := 0
				// sounding notes per (track, key): a note-off without a sounding note-on is unmatched, a note-on still sounding at the
				// end is hanging (counted here because the file is too long for one TLC state per byte; SMF.tla does this for all others)
				sounding := map[[2]int]int{}
				unmatched := 0
				for _, e := range f.Events {
					switch {
					case e.Kind == smf.KindMeta && e.A == smf.MetaEOT:
						eots++
					case e.Kind == smf.KindOn && e.B > 0:
						sounding[[2]int{e.Track, e.A}]++
					case e.Kind == smf.KindOff || (e.Kind == smf.KindOn && e.B == 0):
						if sounding[[2]int{e.Track, e.A}] == 0 {
							unmatched++
						} else {
							sounding[[2]int{e.Track, e.A}]--
						}
					}
				}
				hanging := 0
				for _, v := range sounding {
					hanging += v
				}
				return []Rec{{"kind": "hugefile", "sub": fmt.Sprint("huge", ci(k, "tracks"), len(d)), "tracks": ci(k, "tracks"), "bytes": len(out), "declared": f.NTracks, "format": f.Format,
					"readerOk": f.Err == "", "readerErr": f.Err, "eots": eots, "unmatched": unmatched, "hanging": hanging}}
			}
			recs := []Rec{fileRec(out, ci(k, "tracks"))}
			if !cb(k, "ofile") && !cb(k, "debug") {
				// growth beyond the listed properties: the human-readable listing of `write event` must describe the same events
				evArgs := append([]string{"write", "event"}, args[1:]...)
				re := c.crd(evArgs, d.YAML())
				lines := [][]any{}
				for _, ln := range strings.Split(strings.TrimRight(string(re.Stdout), "\n"), "\n") {
					m := eventLine.FindStringSubmatch(ln)
					if m == nil {
						lines = append(lines, []any{-1, -1, -1, "unparsed", -1, -1})
						continue
					}
					key, vel := -1, -1
					if mk := eventKey.FindStringSubmatch(m[5]); mk != nil {
						fmt.Sscan(mk[1], &key)
					}
					if mv := eventVel.FindStringSubmatch(m[5]); mv != nil {
						fmt.Sscan(mv[1], &vel)
					}
					var trk, tick, beat int
					fmt.Sscan(m[1], &trk)
					fmt.Sscan(m[2], &tick)
					fmt.Sscan(m[3], &beat)
					lines = append(lines, []any{trk, tick, beat, m[4], key, vel})
				}
				f := smf.Parse(out)
				recs = append(recs, Rec{"kind": "listing", "sub": "listing", "ok": re.Exit == 0, "lines": lines, "ev": eventsOf(f), "division": f.Division})
			}
			return recs
		},
		Nontrivial: func(r Rec) bool { return r["kind"] == "file" },
		Extra: func(recs []Rec) map[string]any {
			files, bytes, nofile, listings := 0, 0, 0, 0
			for _, r := range recs {
				switch r["kind"] {
				case "file":
					files++
					bytes += len(r["b"].([]int))
				case "nofile":
					nofile++
				case "listing":
					listings++
				}
			}
			return map[string]any{"files": files, "bytes": bytes, "nofile": nofile, "listings": listings}
		},
	})
}
