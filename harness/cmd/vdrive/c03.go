package main

import (
	"gopkg.in/yaml.v3"
)

// instances YAML as printed by `text conv` (harness's own reading; notation strings are passed on as text)
type yInstance struct {
	Chord *struct {
		Degree string  `yaml:"degree"`
		Name   string  `yaml:"name"`
		Base   *string `yaml:"base"`
	} `yaml:"chord"`
	Values   []string          `yaml:"values"`
	BPM      *int              `yaml:"bpm"`
	Velocity *string           `yaml:"velocity"`
	Meter    *string           `yaml:"meter"`
	Key      *string           `yaml:"key"`
	Meta     map[string]string `yaml:"meta"`
}

func noteSpellings() []string {
	out := []string{}
	for _, l := range []string{"C", "D", "E", "F", "G", "A", "B"} {
		for _, a := range []string{"", "#", "b"} {
			out = append(out, l+a)
		}
	}
	return out
}

func init() {
	register("c03", Def{
		Rule:       "28 supported keys x 21 root spellings x (no bass + 21 bass spellings): one `crd text conv syllable --key K` run per single chord; all 12,936 are distinct inputs",
		Exhaustive: true,
		Gen: func(c *Ctx) []Case {
			cases := []Case{}
			for _, k := range supportedKeys {
				for _, r := range noteSpellings() {
					cases = append(cases, Case{"key": k, "root": r, "bass": ""})
					for _, b := range noteSpellings() {
						cases = append(cases, Case{"key": k, "root": r, "bass": b})
					}
				}
			}
			return cases
		},
		Exec: func(c *Ctx, k Case) []Rec {
			text := cs(k, "root")
			if cs(k, "bass") != "" {
				text += "/" + cs(k, "bass")
			}
			text += "[1]\n"
			r := c.crd([]string{"text", "conv", "syllable", "--key", cs(k, "key")}, []byte(text))
			rec := Rec{"kind": "chord", "key": chars(cs(k, "key")), "root": chars(cs(k, "root")), "bass": chars(cs(k, "bass")),
				"terminated": !r.TimedOut, "stdoutLen": len(r.Stdout), "stderrLen": len(r.Stderr),
				"ok": false, "degree": []int{}, "base": []int{}, "hasBase": false, "n": 0}
			var ins []yInstance
			if len(r.Stdout) > 0 && yaml.Unmarshal(r.Stdout, &ins) == nil {
				rec["n"] = len(ins)
				if len(ins) == 1 && ins[0].Chord != nil {
					rec["ok"] = true
					rec["degree"] = chars(ins[0].Chord.Degree)
					if ins[0].Chord.Base != nil {
						rec["hasBase"] = true
						rec["base"] = chars(*ins[0].Chord.Base)
					}
				}
			}
			return []Rec{rec}
		},
		Extra: func(recs []Rec) map[string]any {
			ok := 0
			for _, r := range recs {
				if r["ok"] == true {
					ok++
				}
			}
			return map[string]any{"converted": ok, "refused": len(recs) - ok}
		},
	})
}
