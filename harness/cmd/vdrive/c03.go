package main

import (
	"math/rand"
	"strings"

	"gopkg.in/yaml.v3"
)

// instances YAML as printed by `text conv` (harness's own reading; notation strings are passed on as text)
type yInstance struct {
	Chord *struct {
		Degree string  `yaml:"degree"`
		Name   string  `yaml:"name"`
		Base   *string `yaml:"base"`
	} `yaml:"chord"`
	Values   []string          `yaml:"values"`
	BPM      *int              `yaml:"bpm"`
	Velocity *string           `yaml:"velocity"`
	Meter    *string           `yaml:"meter"`
	Key      *string           `yaml:"key"`
	Meta     map[string]string `yaml:"meta"`
}

func noteSpellings() []string {
	out := []string{}
	for _, l := range []string{"C", "D", "E", "F", "G", "A", "B"} {
		for _, a := range []string{"", "#", "b"} {
			out = append(out, l+a)
		}
	}
	return out
}

func init() {
	register("c03", Def{
		Debug:      true,
		Rule:       "28 supported keys x 21 root spellings x (no bass + 21 bass spellings): one `crd text conv syllable --key K` run per single chord; all 12,936 are distinct inputs; plus 588 seeded repeats with the key delivered by {key=K} on the chord or on a preceding rest",
		Exhaustive: true,
		Gen: func(c *Ctx) []Case {
			cases := []Case{}
			for _, k := range supportedKeys {
				for _, r := range noteSpellings() {
					cases = append(cases, Case{"key": k, "root": r, "bass": ""})
					for _, b := range noteSpellings() {
						cases = append(cases, Case{"key": k, "root": r, "bass": b})
					}
				}
			}
			// the same law when the key is established by {key=K} on the chord itself or on a preceding rest
			// (a different delivery of the key; a seeded slice of the table)
			rng := rand.New(rand.NewSource(c.Seed))
			for _, k := range supportedKeys {
				for _, r := range noteSpellings() {
					b := ""
					if rng.Intn(2) == 0 {
						b = noteSpellings()[rng.Intn(21)]
					}
					cases = append(cases, Case{"key": k, "root": r, "bass": b, "via": []string{"self", "rest"}[rng.Intn(2)], "uni": rng.Intn(3) == 0})
				}
			}
			// a slice of the main table with the accidentals written as the Unicode signs
			for i := range cases {
				if i%8 == 3 && cases[i]["via"] == nil {
					cases[i]["uni"] = true
				}
			}
			return cases
		},
		Exec: func(c *Ctx, k Case) []Rec {
			spell := func(n string) string {
				if cb(k, "uni") { // letters are upper case: a `b` is always the flat
					return strings.NewReplacer("#", "♯", "b", "♭").Replace(n)
				}
				return n
			}
			text := spell(cs(k, "root"))
			if cs(k, "bass") != "" {
				text += "/" + spell(cs(k, "bass"))
			}
			text += "[1]"
			args := []string{"text", "conv", "syllable", "--key", cs(k, "key")}
			want := 1
			switch cs(k, "via") {
			case "self": // starts in another key, the chord carries the key
				text += "{key=" + cs(k, "key") + "}"
				args = []string{"text", "conv", "syllable", "--key", "F#"}
			case "rest": // a preceding rest carries the key
				text = "R[2]{key=" + cs(k, "key") + "} " + text
				args = []string{"text", "conv", "syllable", "--key", "Ab"}
				want = 2
			}
			text += "\n"
			r := c.crd(args, []byte(text))
			rec := Rec{"kind": "chord", "key": chars(cs(k, "key")), "root": chars(cs(k, "root")), "bass": chars(cs(k, "bass")),
				"terminated": !r.TimedOut, "stdoutLen": len(r.Stdout), "stderrLen": len(r.Stderr), "uni": cb(k, "uni"),
				"ok": false, "degree": []int{}, "base": []int{}, "hasBase": false, "n": 0}
			var ins []yInstance
			if len(r.Stdout) > 0 && yaml.Unmarshal(r.Stdout, &ins) == nil {
				rec["n"] = len(ins)
				if len(ins) == want && ins[want-1].Chord != nil {
					rec["ok"] = true
					rec["degree"] = chars(ins[want-1].Chord.Degree)
					if ins[want-1].Chord.Base != nil {
						rec["hasBase"] = true
						rec["base"] = chars(*ins[want-1].Chord.Base)
					}
				}
			}
			return []Rec{rec}
		},
		Extra: func(recs []Rec) map[string]any {
			ok := 0
			for _, r := range recs {
				if r["ok"] == true {
					ok++
				}
			}
			return map[string]any{"converted": ok, "refused": len(recs) - ok}
		},
	})
}
