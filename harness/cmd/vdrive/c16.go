package main

import (
	"fmt"
	"math/rand"
	"os"
	"sort"
	"strings"

	"verif/harness/internal/smf"

	"gopkg.in/yaml.v3"
)

// UChord / UAttr are user dictionary entries as the driver means them.
type UChord struct {
	Name, Display string
	Attrs         []string
	Extends       string
}
type UAttr struct{ Name, Degree string }

func chordsYAML(cs []UChord) string {
	list := []map[string]any{}
	for _, c := range cs {
		m := map[string]any{"name": c.Name, "meta": map[string]any{"display": c.Display}}
		if len(c.Attrs) > 0 {
			m["attributes"] = c.Attrs
		}
		if c.Extends != "" {
			m["extends"] = c.Extends
		}
		list = append(list, m)
	}
	b, _ := yaml.Marshal(list)
	return string(b)
}

func attrsYAML(as []UAttr) string {
	list := []map[string]any{}
	for _, a := range as {
		list = append(list, map[string]any{"name": a.Name, "degree": a.Degree})
	}
	b, _ := yaml.Marshal(list)
	return string(b)
}

func oneChordDoc(sym string) []byte {
	return Doc{{Deg: "1", Sym: sym, Vals: one()}}.YAML()
}

func playOne(c *Ctx, sym string, extra []string) Rec {
	r := c.crd(append([]string{"write"}, extra...), oneChordDoc(sym))
	f := smf.Parse(r.Stdout)
	ok := r.Exit == 0 && !r.TimedOut && !r.Panic && len(r.Stdout) > 0 && f.Err == ""
	ons := []int{}
	if ok {
		ons = noteOns(f)
	}
	return Rec{"key": chars(sym), "ok": ok, "ons": ons, "stdoutLen": len(r.Stdout), "stderrLen": len(r.Stderr), "exit": r.Exit,
		"panic": r.Panic, "terminated": !r.TimedOut}
}

// playSeq plays several chords in ONE run (one document) and returns the sounded keys per chord
func playSeq(c *Ctx, syms []string, extra []string) ([][]int, bool) {
	d := Doc{}
	for _, s := range syms {
		d = append(d, Inst{Deg: "1", Sym: s, Vals: one()})
	}
	r := c.crd(append([]string{"write"}, extra...), d.YAML())
	f := smf.Parse(r.Stdout)
	if r.Exit != 0 || r.TimedOut || r.Panic || len(r.Stdout) == 0 || f.Err != "" {
		return [][]int{}, false
	}
	runs := strikesByTick(f)
	return runs, true
}

// strikesByTick: the keys struck, grouped by the tick they are struck at (in whatever order the file lists the events
// of one tick), groups in time order
func strikesByTick(f smf.File) [][]int {
	at := map[int][]int{}
	ticks := []int{}
	for _, e := range f.Events {
		if e.Kind == smf.KindOn && e.B > 0 {
			if _, ok := at[e.Tick]; !ok {
				ticks = append(ticks, e.Tick)
			}
			at[e.Tick] = append(at[e.Tick], e.A)
		}
	}
	sort.Ints(ticks)
	runs := [][]int{}
	for _, t := range ticks {
		runs = append(runs, at[t])
	}
	return runs
}

var conventional = map[string]bool{"": true, "m": true, "dim": true, "aug": true, "7": true, "M7": true, "maj7": true, "m7": true, "mM7": true, "m7b5": true,
	"dim7": true, "augM7": true, "9": true, "m9": true, "M9": true, "maj9": true, "mM9": true, "sus4": true, "7sus4": true, "6": true, "m6": true, "add9": true, "sus2": true}

func builtinChordList(c *Ctx) ([]yChordDef, bool) {
	r := c.crd([]string{"info", "chord", "list"}, nil)
	var list []yChordDef
	ok := r.Exit == 0 && len(r.Stdout) > 0 && yaml.Unmarshal(r.Stdout, &list) == nil
	return list, ok
}

func init() {
	register("c16", Def{
		Debug: true,
		Rule: "built-ins: `info attr list` vs `gen attr` and the English names; `info chord list`; every built-in chord played by name and by display. user dictionaries: every dictionary of one " +
			"or two chord entries over a pool (fresh names, an override of MinorTriad/m, extends in {none, user names, built-in names and displays, dangling}, attributes in {built-in, user, dangling}, " +
			"self/mutual cycles) x attribute-file variants (none, two user attributes, an unnamed attribute) - quick: all one-entry dictionaries + a seeded sample of two-entry ones, thorough: all; " +
			"each loaded with --chord/--attr and every user name and display (plus one built-in) played; distinct = distinct dictionaries / built-ins",
		Gen: func(c *Ctx) []Case {
			cases := []Case{{"cmd": "attrlist"}, {"cmd": "attruse"}, {"cmd": "chordlist"}}
			list, _ := builtinChordList(c)
			for _, b := range list {
				cases = append(cases, Case{"cmd": "builtin", "name": b.Name, "display": b.Meta.Display})
			}
			// all built-ins in one document, interleaved and repeated (chords must not influence each other)
			cases = append(cases, Case{"cmd": "builtinseq", "seed": c.Seed})
			// hand-picked dictionaries
			hand := []Case{
				{"cmd": "userdict", "attrs": []UAttr{{"Perfect5", "bb5"}}, "chords": []UChord{{"U1", "u1", []string{"Perfect1", "Perfect5"}, ""}}},                                                  // attribute override: later wins
				{"cmd": "userdict", "attrs": []UAttr{}, "chords": []UChord{{"A", "a", nil, "B"}, {"B", "b", nil, "C"}, {"C", "c", nil, "A"}}},                                                       // 3-cycle
				{"cmd": "userdict", "attrs": []UAttr{}, "chords": []UChord{{"T", "t", []string{"Major3"}, "A"}, {"A", "a", nil, "B"}, {"B", "b", nil, "A"}}},                                        // a tail leading into a cycle
				{"cmd": "userdict", "attrs": []UAttr{}, "chords": []UChord{{"T", "t", nil, "U"}, {"U", "u", nil, "V"}, {"V", "v", []string{"Major3"}, "V"}}},                                        // a tail leading into a self-loop
				{"cmd": "userdict", "attrs": []UAttr{}, "chords": []UChord{{"A", "a", []string{"Major9"}, "B"}, {"B", "b", []string{"Minor7"}, "C"}, {"C", "c", []string{"Major6"}, "MinorTriad"}}}, // depth 3 over a built-in
				{"cmd": "userdict", "attrs": []UAttr{}, "chords": []UChord{{"A", "a", []string{"Major9"}, "b"}, {"B", "b", []string{"Minor7"}, "m7b5"}}},                                            // extends by display
				{"cmd": "userdict", "attrs": []UAttr{}, "split": true, "chords": []UChord{{"Child", "ch", []string{"Major9"}, "Parent"}, {"Parent", "pa", []string{"Perfect1", "Minor3"}, ""}}},     // the extending file comes first
				{"cmd": "userdict", "attrs": []UAttr{}, "split": true, "chords": []UChord{{"Parent", "pa", []string{"Perfect1", "Minor3"}, ""}, {"Child", "ch", []string{"Major9"}, "pa"}}},
				{"cmd": "userdict", "attrs": []UAttr{}, "split": true, "chords": []UChord{{"Twice", "tw", []string{"Perfect1", "Minor3"}, ""}, {"Twice", "tw", []string{"Perfect1", "Major3", "Major6"}, ""}}}, // the later file wins
				{"cmd": "userdict", "attrs": []UAttr{}, "split": true, "chords": []UChord{{"Twice", "tw", []string{"Perfect1", "Minor3"}, ""}, {"Other", "ot", nil, "tw"}, {"Twice", "tw", []string{"Perfect4"}, ""}}},
				{"cmd": "userdict", "attrs": []UAttr{{"XA", "b2"}}, "chords": []UChord{{"", "zz", []string{"XA"}, ""}}},
				// the same file named twice: a, b, a
				{"cmd": "userdict", "attrs": []UAttr{}, "split": true, "repeatFirst": true, "chords": []UChord{{"Q", "q", []string{"Perfect1", "Perfect4"}, ""}, {"Q2", "q", []string{"Perfect1", "Major3", "Major6"}, ""}}},
				{"cmd": "userdict", "attrs": []UAttr{}, "split": true, "repeatFirst": true, "chords": []UChord{{"Q", "q", []string{"Perfect1", "Perfect4"}, ""}, {"Q", "qq", []string{"Perfect1", "Major3", "Major6"}, ""}}},
				// a built-in's long name defined again under a new symbol, on top of what its old symbol still means
				{"cmd": "userdict", "attrs": []UAttr{}, "chords": []UChord{{"MinorSeventh", "m7+", []string{"Major9"}, "m7"}}},
				{"cmd": "userdict", "attrs": []UAttr{}, "chords": []UChord{{"MinorSeventh", "m7+", []string{"Major9"}, "m7"}, {"Top", "top", []string{"Perfect11"}, "MinorSeventh"}}},
				// one name, two symbols: the earlier entry stays reachable under its symbol and is checked like any other
				{"cmd": "userdict", "attrs": []UAttr{}, "chords": []UChord{{"A", "a1", nil, "Ghost"}, {"A", "a2", []string{"Perfect1", "Major3"}, ""}}},
				{"cmd": "userdict", "attrs": []UAttr{}, "chords": []UChord{{"A", "a1", []string{"GhostAttr"}, ""}, {"A", "a2", []string{"Perfect1", "Major3"}, ""}}},
				{"cmd": "userdict", "attrs": []UAttr{}, "chords": []UChord{{"S", "sx", nil, "sx"}, {"S", "sy", []string{"Perfect1", "Major3"}, ""}}},
				{"cmd": "userdict", "attrs": []UAttr{}, "split": true, "chords": []UChord{{"S", "sx", nil, "sx"}, {"S", "sy", []string{"Perfect1", "Major3"}, ""}}},
				// names and symbols that differ from a built-in's by case or by blanks only are other names
				{"cmd": "userdict", "attrs": []UAttr{}, "chords": []UChord{{"M", "M", nil, "MajorTriad"}}},
				// (a symbol made of a blank, a name that ends in one, an empty definitions file, an attribute named twice in one chord: no sentence
				// of C16 obliges crd to accept those -- second audit; the case pair below keeps what differs by case only)
				{"cmd": "userdict", "attrs": []UAttr{}, "chords": []UChord{{"majortriad", "MAJ", []string{"Perfect1", "Perfect4"}, ""}}},
			}
			cases = append(cases, hand...)
			// long chains of extends (deeper than any small bound), the name being its own symbol or not
			for _, same := range []bool{true, false} {
				for _, n := range []int{49, 64} {
					chain := []UChord{}
					for i := 0; i < n; i++ {
						nm := fmt.Sprintf("L%d", i)
						dp := nm
						if !same {
							dp = fmt.Sprintf("l%d", i)
						}
						u := UChord{nm, dp, nil, ""}
						switch {
						case i == 0:
							u.Attrs = []string{"Perfect1", "Major3", "Perfect5", "Minor7"}
						case i == n/2:
							u.Attrs, u.Extends = []string{"Major9"}, chain[i-1].Display
						default:
							u.Extends = chain[i-1].Name
						}
						chain = append(chain, u)
					}
					cases = append(cases, Case{"cmd": "userdict", "attrs": []UAttr{}, "chords": chain, "onlyLast": true})
				}
			}
			attrVariants := [][]UAttr{{}, {{"XA", "b2"}, {"XB", "#11"}}, {{"XA", "b2"}, {"", "3"}}}
			type nd struct{ n, d string }
			names := []nd{{"U1", "u1"}, {"U2", "u2"}, {"MinorTriad", "m"}, {"U7", "sus2"}} // U7: a fresh name taking over a built-in display
			exts := []string{"", "U1", "U2", "u1", "MajorTriad", "m7", "MinorSeventh", "Ghost"}
			attrSets := [][]string{nil, {"XA"}, {"Perfect5", "Major9"}, {"GhostAttr"}, {"Major3", "Major7"}}
			pool := []UChord{}
			for _, n := range names {
				for _, e := range exts {
					if n.n == "MinorTriad" && (e == "m7" || e == "MinorSeventh") {
						continue // would be a cycle through a built-in's own inheritance, which the flattened table cannot see
					}
					for _, a := range attrSets {
						if e == "" && len(a) == 0 {
							continue
						}
						pool = append(pool, UChord{n.n, n.d, a, e})
					}
				}
			}
			for _, av := range attrVariants {
				for _, p := range pool {
					cases = append(cases, Case{"cmd": "userdict", "attrs": av, "chords": []UChord{p}})
				}
			}
			pairs := []Case{}
			for _, av := range attrVariants {
				for _, p := range pool {
					for _, q := range pool {
						if p.Name == q.Name {
							continue
						}
						// an override of MinorTriad would legitimately change the built-ins that inherit from it;
						// the property does not say how, so such combinations are not generated
						if (p.Name == "MinorTriad" && (q.Extends == "m7" || q.Extends == "MinorSeventh")) ||
							(q.Name == "MinorTriad" && (p.Extends == "m7" || p.Extends == "MinorSeventh")) {
							continue
						}
						pairs = append(pairs, Case{"cmd": "userdict", "attrs": av, "chords": []UChord{p, q}, "split": len(pairs)%3 == 1})
					}
				}
			}
			for i := range cases {
				if cs(cases[i], "cmd") == "userdict" && i%5 == 0 {
					cases[i]["blank"] = 0 // (an extra definitions file without any entry: not generated any more)
				}
			}
			for i := range pairs {
				if i%7 == 0 {
					pairs[i]["blank"] = 0
				}
			}
			if c.quick() {
				rng := rand.New(rand.NewSource(c.Seed))
				rng.Shuffle(len(pairs), func(i, j int) { pairs[i], pairs[j] = pairs[j], pairs[i] })
				pairs = pairs[:400]
			}
			return append(cases, pairs...)
		},
		Exec: func(c *Ctx, k Case) []Rec {
			pairsOf := func(as []yAttr) []Rec {
				out := []Rec{}
				for _, a := range as {
					out = append(out, Rec{"name": chars(a.Name), "degree": chars(a.Degree)})
				}
				return out
			}
			switch cs(k, "cmd") {
			case "attrlist":
				r1 := c.crd([]string{"info", "attr", "list"}, nil)
				r2 := c.crd([]string{"gen", "attr"}, nil)
				var a1, a2 []yAttr
				ok := len(r1.Stdout) > 0 && len(r2.Stdout) > 0 && yaml.Unmarshal(r1.Stdout, &a1) == nil && yaml.Unmarshal(r2.Stdout, &a2) == nil
				return []Rec{{"kind": "attrlist", "ok": ok, "list": pairsOf(a1), "gen": pairsOf(a2)}}
			case "attruse":
				// what a built-in attribute name denotes where it matters: in a chord that is played.  One user chord per name
				// (unison + that attribute), all of them in one piece
				r1 := c.crd([]string{"info", "attr", "list"}, nil)
				var a1 []yAttr
				if len(r1.Stdout) == 0 || yaml.Unmarshal(r1.Stdout, &a1) != nil || len(a1) == 0 {
					return []Rec{{"kind": "attruse", "ok": false, "names": [][]int{}, "ons": [][]int{}}}
				}
				var sb strings.Builder
				keys, names := []string{}, [][]int{}
				for i, a := range a1 {
					if a.Name == "Perfect1" {
						fmt.Fprintf(&sb, "- name: AttrUse%d\n  meta: {display: au%d}\n  attributes: [Perfect1]\n", i, i)
					} else {
						fmt.Fprintf(&sb, "- name: AttrUse%d\n  meta: {display: au%d}\n  attributes: [Perfect1, %s]\n", i, i, a.Name)
					}
					keys = append(keys, fmt.Sprintf("au%d", i))
					names = append(names, chars(a.Name))
				}
				f := c.writeTemp(fmt.Sprintf("attruse%d.yml", nextID()), sb.String())
				defer os.Remove(f)
				runs, ok := playSeq(c, keys, []string{"--chord", f})
				return []Rec{{"kind": "attruse", "ok": ok, "names": names, "ons": runs}}
			case "chordlist":
				list, ok := builtinChordList(c)
				cl := []Rec{}
				for _, b := range list {
					cl = append(cl, Rec{"name": chars(b.Name), "display": chars(b.Meta.Display)})
				}
				return []Rec{{"kind": "chordlist", "ok": ok, "chords": cl}}
			case "builtinseq":
				all, _ := builtinChordList(c)
				list := []yChordDef{}
				for _, b := range all { // the symbols the statement gives the tones of (a further built-in has none to be held to)
					if conventional[b.Meta.Display] {
						list = append(list, b)
					}
				}
				keys := []string{}
				for rep := 0; rep < 3; rep++ {
					for _, b := range list {
						keys = append(keys, b.Name, b.Meta.Display)
					}
				}
				rng := rand.New(rand.NewSource(int64(ci(k, "seed"))))
				rng.Shuffle(len(keys), func(a, b int) { keys[a], keys[b] = keys[b], keys[a] })
				runs, ok := playSeq(c, keys, nil)
				bn := []Rec{}
				for _, b := range list {
					bn = append(bn, Rec{"name": chars(b.Name), "display": b.Meta.Display})
				}
				return []Rec{{"kind": "userdict", "sub": "builtinseq", "uattrs": []Rec{}, "uchords": []Rec{}, "bnames": bn, "uses": []Rec{}, "idle": []Rec{},
					"seqOk": ok, "seqKeys": strsChars(keys), "seqOns": runs}}
			case "builtin":
				a := playOne(c, cs(k, "name"), nil)
				b := playOne(c, cs(k, "display"), nil)
				return []Rec{{"kind": "builtin", "sub": cs(k, "name"), "name": chars(cs(k, "name")), "display": chars(cs(k, "display")),
					"okName": a["ok"], "okDisplay": b["ok"], "onsName": a["ons"], "onsDisplay": b["ons"]}}
			case "userdict":
				var ua []UAttr
				var uc []UChord
				remarshal(k["attrs"], &ua)
				remarshal(k["chords"], &uc)
				id := fmt.Sprint(nextID())
				extra := []string{}
				var files []string
				if len(ua) > 0 {
					f := c.writeTemp("a"+id+".yml", attrsYAML(ua))
					extra = append(extra, "--attr", f)
					files = append(files, f)
				}
				// a dictionary file without any entry (zero bytes, or a template with everything commented out) adds nothing
				if bl := ci(k, "blank"); bl > 0 {
					content := []string{"", "# - name: X\n#   attributes: []\n\n", "\n\n", "---\n"}[bl%4]
					fa, fc := c.writeTemp("ba"+id+".yml", content), c.writeTemp("bc"+id+".yml", content)
					files = append(files, fa, fc)
					if bl%2 == 1 {
						extra = append(extra, "--attr", fa)
					}
					extra = append(extra, "--chord", fc)
				}
				if cb(k, "split") && len(uc) > 1 {
					// one file per entry, in the order written: a dictionary is the whole of its files, whatever their order
					for fi, one := range uc {
						f := c.writeTemp(fmt.Sprintf("c%s-%c.yml", id, 'z'-rune(fi)), chordsYAML([]UChord{one})) // names in reverse path order

						extra = append(extra, "--chord", f)
						files = append(files, f)
					}
				} else {
					f := c.writeTemp("c"+id+".yml", chordsYAML(uc))
					extra = append(extra, "--chord", f)
					files = append(files, f)
				}
				if cb(k, "repeatFirst") && cb(k, "split") && len(uc) > 1 {
					// the first file is named once more at the end: its definitions are loaded again, after the others
					extra = append(extra, "--chord", files[len(files)-len(uc)])
					uc = append(uc, uc[0])
				}
				defer func() {
					for _, f := range files {
						os.Remove(f)
					}
				}()
				uses := []Rec{}
				seen := map[string]bool{}
				for ci2, ch := range uc {
					if cb(k, "onlyLast") && ci2 != 0 && ci2 != len(uc)-1 {
						continue
					}
					for _, key := range []string{ch.Name, ch.Display} {
						if key == "" || seen[key] || strings.ContainsAny(key, " ") {
							continue
						}
						seen[key] = true
						uses = append(uses, playOne(c, key, extra))
					}
				}
				overridesAttr := false
				for _, a := range ua {
					if a.Name == "Perfect5" || a.Name == "Perfect1" || a.Name == "Perfect4" {
						overridesAttr = true // the built-in sus4 would legitimately change with its attributes
					}
				}
				if !overridesAttr {
					// built-ins next to the user entries: still what they were, unless the dictionary redefines them
					for _, b := range []string{"sus4", "", "m", "M7"} {
						if !seen[b] {
							seen[b] = true
							uses = append(uses, playOne(c, b, extra))
						}
					}
				}
				bl, _ := builtinChordList(c)
				bn := []Rec{}
				for _, b := range bl {
					bn = append(bn, Rec{"name": chars(b.Name), "display": b.Meta.Display})
				}
				ra := []Rec{}
				for _, a := range ua {
					ra = append(ra, Rec{"name": chars(a.Name), "degree": chars(a.Degree)})
				}
				rc := []Rec{}
				for _, ch := range uc {
					rc = append(rc, Rec{"name": chars(ch.Name), "display": chars(ch.Display), "attrs": strsChars(ch.Attrs), "extends": chars(ch.Extends)})
				}
				// the same symbols in one run, interleaved and repeated
				seqKeys := []string{}
				for rep := 0; rep < 2; rep++ {
					for _, u := range uses {
						ks := ""
						for _, x := range u["key"].([]int) {
							ks += string(rune(x))
						}
						seqKeys = append(seqKeys, ks)
					}
				}
				runs, sok := playSeq(c, seqKeys, extra)
				// the dictionary is accepted or rejected as a whole, also by a run that needs no chord from it (`info chord list` only lists what it was given and is not asked)
				rr := c.crd(append([]string{"write", "parse"}, extra...), []byte("- values: [\"1\"]\n- values: [\"1/2\"]\n"))
				idle := []Rec{
					{"cmd": "write parse (rests only)", "ok": rr.Exit == 0 && len(rr.Stdout) > 0, "exit": rr.Exit, "stdoutLen": len(rr.Stdout), "stderrLen": len(rr.Stderr), "panic": rr.Panic, "terminated": !rr.TimedOut},
				}
				return []Rec{{"kind": "userdict", "uattrs": ra, "uchords": rc, "bnames": bn, "uses": uses, "seqOk": sok, "seqKeys": strsChars(seqKeys), "seqOns": runs, "idle": idle}}
			}
			return nil
		},
	})
}
