package main

import (
	"encoding/json"
	"sync/atomic"
)

var idCounter atomic.Int64

func nextID() int64 { return idCounter.Add(1) }

func remarshal(in any, out any) {
	b, _ := json.Marshal(in)
	_ = json.Unmarshal(b, out)
}
