package main

import "encoding/json"

func remarshal(in any, out any) {
	b, _ := json.Marshal(in)
	_ = json.Unmarshal(b, out)
}
