package main

import (
	"path/filepath"

	"verif/harness/internal/smf"
)

// smfsanity writes hand-assembled Standard MIDI Files (not produced by crd) and one corruption per
// rule of SMF.tla, with the verdict each must get. It is the self-test of the recogniser and of the
// harness reader (model side of C08); it never touches the crd binary.
func init() {
	drivers["smfsanity"] = func(c *Ctx) (*Meta, error) {
		be32 := func(n int) []byte { return []byte{byte(n >> 24), byte(n >> 16), byte(n >> 8), byte(n)} }
		hdr := func(format, ntrks int) []byte {
			return append([]byte("MThd"), 0, 0, 0, 6, 0, byte(format), 0, byte(ntrks), 0x03, 0xc0)
		}
		chunk := func(body []byte) []byte { return append(append([]byte("MTrk"), be32(len(body))...), body...) }
		cat := func(parts ...[]byte) []byte {
			out := []byte{}
			for _, p := range parts {
				out = append(out, p...)
			}
			return out
		}
		name := []byte{0, 0xff, 3, 1, 'x'}
		pc := []byte{0, 0xc0, 5}
		tempo := []byte{0, 0xff, 0x51, 3, 7, 0xa1, 0x20}
		on2 := []byte{0, 0x90, 60, 64, 0, 64, 64} // second note-on by running status
		off2 := []byte{0x83, 0x60, 0x80, 60, 0, 0, 64, 0}
		eot := []byte{0, 0xff, 0x2f, 0}
		body := cat(name, pc, tempo, on2, off2, eot)
		good0 := cat(hdr(0, 1), chunk(body))
		t1 := cat([]byte{0, 0x90, 62, 80, 0x60, 0x80, 62, 0}, eot)
		good1 := cat(hdr(1, 2), chunk(cat(name, tempo, eot)), chunk(t1))
		good1vel0 := cat(hdr(1, 2), chunk(cat(name, eot)), chunk(cat([]byte{0, 0x90, 62, 80, 0x60, 62, 0}, eot))) // note-off as velocity-0 note-on
		type tc struct {
			name   string
			b      []byte
			tracks int
			ok     bool // SMF.tla must accept
			reader bool // the Go reader must accept (it does not check note balance / placement / format rules)
		}
		withLen := func(b []byte, delta int) []byte {
			x := append([]byte{}, b...)
			n := int(x[18])<<24 | int(x[19])<<16 | int(x[20])<<8 | int(x[21])
			copy(x[18:22], be32(n+delta))
			return x
		}
		cases := []tc{
			{"format 0, one track", good0, 1, true, true},
			{"format 1, two tracks", good1, 2, true, true},
			{"note-off as velocity-0 note-on", good1vel0, 2, true, true},
			{"chunk length + 1", withLen(good0, 1), 1, false, false},
			{"chunk length - 1", withLen(good0, -1), 1, false, false},
			{"missing end-of-track", cat(hdr(0, 1), chunk(cat(name, pc, tempo, on2, off2))), 1, false, false},
			{"event after end-of-track", cat(hdr(0, 1), chunk(cat(name, eot, pc))), 1, false, false},
			{"two end-of-track events", cat(hdr(0, 1), chunk(cat(name, eot, eot))), 1, false, false},
			{"data byte >= 128", cat(hdr(0, 1), chunk(cat([]byte{0, 0x90, 60, 0x90}, eot))), 1, false, false},
			{"5-byte delta", cat(hdr(0, 1), chunk(cat([]byte{0x81, 0x80, 0x80, 0x80, 0, 0xc0, 1}, eot))), 1, false, false},
			{"hanging note-on", cat(hdr(0, 1), chunk(cat(name, []byte{0, 0x90, 60, 64}, eot))), 1, false, true},
			{"unmatched note-off", cat(hdr(0, 1), chunk(cat(name, []byte{0, 0x80, 60, 0}, eot))), 1, false, true},
			{"note-off for another key", cat(hdr(0, 1), chunk(cat([]byte{0, 0x90, 60, 64, 0x10, 0x80, 61, 0}, eot))), 1, false, true},
			{"tempo in second track", cat(hdr(1, 2), chunk(cat(name, eot)), chunk(cat(tempo, eot))), 2, false, true},
			{"key signature in second track", cat(hdr(1, 2), chunk(cat(name, eot)), chunk(cat([]byte{0, 0xff, 0x59, 2, 0, 0}, eot))), 2, false, true},
			{"format 0 with two tracks", cat(hdr(0, 2), chunk(cat(name, eot)), chunk(t1)), 2, false, true},
			{"format 1 with one track", cat(hdr(1, 1), chunk(body)), 1, false, true},
			{"format 2", cat(hdr(2, 1), chunk(body)), 1, false, true},
			{"fewer chunks than declared", cat(hdr(1, 3), chunk(cat(name, eot)), chunk(t1)), 3, false, false},
			{"more chunks than declared", cat(hdr(1, 1), chunk(cat(name, eot)), chunk(t1)), 1, false, false},
			{"track count differs from --track", good1, 3, false, true},
			{"trailing garbage", cat(good0, []byte{0}), 1, false, false},
			{"bad magic", cat([]byte("MThx"), good0[4:]), 1, false, false},
			{"header length 7", cat([]byte("MThd"), []byte{0, 0, 0, 7}, good0[8:]), 1, false, false},
			{"bad chunk magic", cat(hdr(0, 1), []byte("MTrx"), be32(len(body)), body), 1, false, false},
			{"data byte without running status", cat(hdr(0, 1), chunk(cat([]byte{0, 60, 64}, eot))), 1, false, false},
			{"running status does not survive a meta event", cat(hdr(0, 1), chunk(cat([]byte{0, 0x90, 60, 64}, name, []byte{0, 60, 0}, eot))), 1, false, false},
			{"truncated file", good0[:len(good0)-3], 1, false, false},
			{"tempo with 2 payload bytes", cat(hdr(0, 1), chunk(cat([]byte{0, 0xff, 0x51, 2, 7, 0xa1}, eot))), 1, false, true},
			{"end-of-track with payload", cat(hdr(0, 1), chunk([]byte{0, 0xff, 0x2f, 1, 0})), 1, false, true},
			{"SMPTE division", cat([]byte("MThd"), []byte{0, 0, 0, 6, 0, 0, 0, 1, 0xe7, 0x28}, chunk(body)), 1, false, false},
			{"empty chunk", cat(hdr(0, 1), chunk([]byte{})), 1, false, false},
			{"system realtime byte in file", cat(hdr(0, 1), chunk(cat([]byte{0, 0xf8}, eot))), 1, false, false},
			{"sysex event (well-formed)", cat(hdr(0, 1), chunk(cat([]byte{0, 0xf0, 2, 1, 0xf7}, eot))), 1, true, true},
			{"unknown meta type (well-formed)", cat(hdr(0, 1), chunk(cat([]byte{0, 0xff, 0x7f, 2, 1, 2}, eot))), 1, true, true},
			{"two-byte meta length", cat(hdr(0, 1), chunk(cat(append([]byte{0, 0xff, 1, 0x81, 0x00}, make([]byte, 128)...), eot))), 1, true, true},
		}
		recs := []any{}
		for _, t := range cases {
			r := fileRec(t.b, t.tracks)
			r["name"] = t.name
			r["expectOk"] = t.ok
			r["expectReader"] = t.reader
			f := smf.Parse(t.b)
			r["readerOk"] = f.Err == ""
			recs = append(recs, r)
		}
		if err := writeNDJSON(filepath.Join(c.Out, "records.ndjson"), recs); err != nil {
			return nil, err
		}
		return &Meta{Evaluations: len(recs), DistinctNontrivial: len(recs), Rule: "hand-assembled SMF files and one corruption per recogniser rule",
			Samples: []any{map[string]any{"name": cases[3].name, "bytes": bytesOf(cases[3].b)}}, Exhaustive: false, Traces: 0, Files: []string{"records.ndjson"}}, nil
	}
}
