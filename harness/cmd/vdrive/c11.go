package main

import (
	"bytes"
	"fmt"
	"math/rand"
	"strings"
)

type ptok struct{ T, V string }

// progTokens renders a progression as an explicit token list (degree notation, or note names in key k0)
func progTokens(p []PItem, mode, k0 string) ([]ptok, bool) {
	out := []ptok{}
	tonic, _ := parseKeyName(k0)
	deg := func(n, acc int) {
		out = append(out, ptok{"NUMBER", fmt.Sprint(n)})
		if acc != 0 {
			out = append(out, ptok{map[int]string{1: "SHARP", -1: "FLAT"}[acc], accText[acc]})
		}
	}
	note := func(g gnote) {
		out = append(out, ptok{"SYLLABLE", string("CDEFGAB"[g.L])})
		if g.A != 0 {
			out = append(out, ptok{map[int]string{1: "SHARP", -1: "FLAT"}[g.A], accText[g.A]})
		}
	}
	for _, it := range p {
		for _, m := range it.Meta {
			if m[0] == "key" {
				tonic, _ = parseKeyName(m[1])
			}
		}
		if it.Rest {
			out = append(out, ptok{"REST", "R"})
		} else {
			var root gnote
			if mode == "degree" {
				deg(it.N, it.Acc)
			} else {
				var ok bool
				root, ok = spellAbove(tonic, it.N, it.Acc)
				if !ok {
					return nil, false
				}
				note(root)
			}
			if it.Sym != "" {
				c := it.Sym[0]
				if (c >= '0' && c <= '9') || c == 'b' || c == '#' || strings.ContainsRune("CDEFGABR", rune(c)) {
					out = append(out, ptok{"UNDERSCORE", "_"})
				}
				out = append(out, ptok{"SYMBOL", it.Sym})
			}
			if it.HasBass {
				out = append(out, ptok{"SLASH", "/"})
				if mode == "degree" {
					deg(it.BN, it.BAcc)
				} else {
					b, ok := spellAbove(root, it.BN, it.BAcc)
					if !ok {
						return nil, false
					}
					note(b)
				}
			}
		}
		out = append(out, ptok{"LBRA", "["})
		for i, v := range it.Vals {
			if i > 0 {
				out = append(out, ptok{"COMMA", ","})
			}
			out = append(out, ptok{"VNUMBER", fmt.Sprint(v.N)})
			if v.D != 1 {
				out = append(out, ptok{"SLASH", "/"}, ptok{"VNUMBER", fmt.Sprint(v.D)})
			}
		}
		out = append(out, ptok{"RBRA", "]"})
		if len(it.Meta) > 0 {
			out = append(out, ptok{"LCBRA", "{"})
			for i, m := range it.Meta {
				if i > 0 {
					out = append(out, ptok{"COMMA", ","})
				}
				out = append(out, ptok{"METADATA", m[0]}, ptok{"EQUAL", "="}, ptok{"METADATA", m[1]})
			}
			out = append(out, ptok{"RCBRA", "}"})
		}
	}
	return out, true
}

// needSep: would the two tokens merge or lex differently when written without a separator?
func needSep(a, b ptok) bool {
	if a.T == "SYMBOL" && !strings.ContainsAny(b.V[:1], "/[_;=") {
		return true
	}
	if (a.T == "NUMBER" || a.T == "VNUMBER") && (b.T == "NUMBER" || b.T == "VNUMBER") {
		return true
	}
	return false
}

// joinTokens writes the tokens with trivia drawn per gap; base=true gives the canonical spelling
func joinTokens(toks []ptok, rng *rand.Rand, base bool, edits int, padAll ...bool) string {
	var sb strings.Builder
	inMeta := false
	// choose which gaps / tokens get edited
	editAt := map[int]int{}
	if !base {
		for e := 0; e < edits; e++ {
			editAt[rng.Intn(len(toks)+1)] = 1 + rng.Intn(5)
		}
	}
	for i, t := range toks {
		// gap before token i
		sep := ""
		if i > 0 && (toks[i-1].T == "RBRA" || toks[i-1].T == "RCBRA") && (t.T == "NUMBER" || t.T == "SYLLABLE" || t.T == "REST") {
			sep = " " // between items
		}
		if i > 0 && needSep(toks[i-1], t) {
			sep = " "
		}
		afterMeta := i > 0 && toks[i-1].T == "METADATA"
		if k, ok := editAt[i]; ok && !afterMeta && i > 0 {
			choices := []string{" ", "\t", "\n", "  \n ", "", "\r\n", "\u00a0", "\u3000", "\f"}
			if !inMeta && toks[i-1].T != "UNDERSCORE" {
				choices = append(choices, ";c\n", " ; [x] {y=z}\n", ";a\n;b\n", ";1\n;2\n;3\n;4\n", " ;x\n\t;y\n ", ";a\tb\tR[4]\n", ";\tverse one\r\n", "; é\u3000x\f\n")
			}
			s := choices[(k+rng.Intn(len(choices)))%len(choices)]
			if s == "" && needSep(toks[i-1], t) {
				s = " "
			}
			if s == "" && sep == " " && !needSep(toks[i-1], t) {
				sep = "" // removing the optional space between items
			} else {
				sep = sep + s
			}
		}
		sb.WriteString(sep)
		v := t.V
		if !base {
			switch t.T {
			case "SHARP":
				if rng.Intn(2) == 0 {
					v = "♯"
				}
			case "FLAT":
				if rng.Intn(2) == 0 {
					v = "♭"
				}
			case "VNUMBER":
				if rng.Intn(3) == 0 || len(padAll) > 0 && padAll[0] {
					v = strings.Repeat("0", []int{1, 2, 1, 3, 19, 20, 21, 40}[rng.Intn(8)]) + v
				}
			case "SYMBOL":
				if (i == 0 || toks[i-1].T != "UNDERSCORE") && rng.Intn(3) == 0 {
					v = "_" + v
				}
			}
		}
		sb.WriteString(v)
		if t.T == "LCBRA" {
			inMeta = true
		}
		if t.T == "RCBRA" {
			inMeta = false
		}
	}
	if !base && rng.Intn(3) == 0 {
		sb.WriteString([]string{"\n", " ", " ;end", "\n\n"}[rng.Intn(4)])
	}
	return sb.String()
}

func init() {
	register("c11", Def{
		Debug: true,
		Rule: "seeded progressions rendered as a canonical text (degree notation or note names in a seeded key) and V spelling variants each: trivia (space, tab, newline, `;` comment, none) changed at " +
			"seeded token gaps, `_` before symbols that do not need it, leading zeros on durations, # / b written as the Unicode signs; plus one-accidental texts for every key; plus stretched trivia (a gap holding 4 093 or 70 001 blanks, blank lines or comment characters: longer than any line buffer). The spec re-derives " +
			"that base and variant have equal abstract token sequences; real `text conv` must print identical bytes for both and the meaning Conv.tla computes. distinct = distinct (base, variant) pairs",
		Gen: func(c *Ctx) []Case {
			rng := rand.New(rand.NewSource(c.Seed))
			n, v := 150, 4
			if !c.quick() {
				n, v = 1500, 8
			}
			cases := []Case{}
			// every accidental spelling once per key, both notations
			for _, k := range supportedKeys {
				cases = append(cases, Case{"prog": []PItem{{N: 4, Acc: 1, Sym: "m", HasBass: true, BN: 3, BAcc: -1, Vals: one()}}, "mode": "syllable", "key": k, "variants": 3, "seed": rng.Int63()})
			}
			for nn := 1; nn <= 7; nn++ {
				for _, a := range []int{1, -1} {
					cases = append(cases, Case{"prog": []PItem{{N: nn, Acc: a, Sym: "7", HasBass: true, BN: 8 - nn, BAcc: -a, Vals: one()}}, "mode": "degree", "key": "", "variants": 3, "seed": rng.Int63()})
				}
			}
			// stretched trivia: a gap filled with tens of thousands of blanks / blank lines, or a comment line longer than any
			// line buffer; the record carries the text with one and with two units, the run uses `n` units
			// more than a million comments in one text (a counter of comments, a recursion per comment ...)
			cases = append(cases, Case{"cmd": "stretch", "kind": "comments", "n": 1100000, "prog": randomProg(rng, 3, 0.2, 7), "mode": "degree", "key": "", "seed": rng.Int63()})
			for i, st := range []string{"blanks", "comment", "lines", "comment", "blanks", "tabs"} {
				for _, nn := range []int{4093, 70001} {
					mode, key := "degree", ""
					if i%2 == 0 {
						mode, key = "syllable", supportedKeys[rng.Intn(len(supportedKeys))]
					}
					cases = append(cases, Case{"cmd": "stretch", "kind": st, "n": nn, "prog": randomProg(rng, 4, 0.2, 7), "mode": mode, "key": key, "seed": rng.Int63()})
				}
			}
			for i := 0; i < n; i++ {
				mode, key := "degree", ""
				if i%2 == 0 {
					mode, key = "syllable", supportedKeys[rng.Intn(len(supportedKeys))]
				}
				cases = append(cases, Case{"prog": randomProg(rng, 6, 0.2, 7), "mode": mode, "key": key, "variants": v, "seed": rng.Int63()})
			}
			// settings blocks with several entries, free texts that contain `;` (data there, not a comment), every gap varied
			semi := []string{"oh; yes", ";-) intro", "a;b;c", "x ;", "; ;", "semi;colon[1]"}
			for i := 0; i < n/6+6; i++ {
				p := randomProg(rng, 4, 0.2, 7)
				for j := range p {
					p[j].Meta = [][2]string{{"txt", semi[rng.Intn(len(semi))]}, {"bpm", fmt.Sprint(60 + rng.Intn(100))}, {"lic", semi[rng.Intn(len(semi))]}, {"key", supportedKeys[rng.Intn(28)]}, {"mrk", "m" + semi[rng.Intn(len(semi))]}}[:2+rng.Intn(4)]
				}
				cases = append(cases, Case{"prog": p, "mode": "degree", "key": "", "variants": 4, "seed": rng.Int63()})
			}
			// symbols that open with punctuation or a sign (text conv does not look symbols up): with and without the `_`
			odd := []string{"-5", "(b5)", ".5", "*", "!x", ":3", "°7", "ø", "+", "'", "\"q", "-", "(9)", "^7", "~", "|x", "@"}
			for i, sy := range odd {
				p := randomProg(rng, 3, 0.0, 7)
				for j := range p {
					if !p[j].Rest {
						p[j].Sym = odd[(i+j)%len(odd)]
					}
				}
				p = append(p, PItem{N: 5, Sym: sy, Vals: one()})
				mode, key := "degree", ""
				if i%2 == 0 {
					mode, key = "syllable", supportedKeys[rng.Intn(len(supportedKeys))]
				}
				cases = append(cases, Case{"prog": p, "mode": mode, "key": key, "variants": 4, "seed": rng.Int63()})
			}
			// every duration numeral zero-padded, with numerals of 8 and more (010 is ten, 08 is eight)
			pool := []Frac{{10, 1}, {8, 1}, {9, 1}, {1, 8}, {1, 10}, {12, 8}, {100, 1}, {18, 11}, {64, 9}}
			for i := 0; i < n/8+4; i++ {
				p := randomProg(rng, 4, 0.2, 7)
				for j := range p {
					p[j].Vals = []Frac{pool[rng.Intn(len(pool))]}
					if rng.Intn(3) == 0 {
						p[j].Vals = append(p[j].Vals, pool[rng.Intn(len(pool))])
					}
				}
				mode, key := "degree", ""
				if i%2 == 0 {
					mode, key = "syllable", supportedKeys[rng.Intn(len(supportedKeys))]
				}
				cases = append(cases, Case{"prog": p, "mode": mode, "key": key, "variants": 2, "seed": rng.Int63(), "padAll": true})
			}
			return cases
		},
		Exec: func(c *Ctx, k Case) []Rec {
			var p []PItem
			remarshal(k["prog"], &p)
			rng := rand.New(rand.NewSource(int64(ci(k, "seed"))))
			mode, key := cs(k, "mode"), cs(k, "key")
			k0 := key
			if k0 == "" {
				k0 = "C"
			}
			toks, ok := progTokens(p, mode, k0)
			if !ok {
				return nil
			}
			base := joinTokens(toks, rng, true, 0) + "\n"
			a, aout := convRec(c, mode, key, base)
			recs := []Rec{}
			if cs(k, "cmd") == "stretch" {
				// the gap in front of an item (after a `]` or `}`), or the end of the text
				gaps := []int{len(base) - 1}
				for i := 1; i < len(base)-1; i++ {
					if (base[i-1] == ']' || base[i-1] == '}') && base[i] == ' ' {
						gaps = append(gaps, i)
					}
				}
				at := gaps[rng.Intn(len(gaps))]
				var pre, unit, post string
				switch cs(k, "kind") {
				case "blanks":
					unit = " "
				case "tabs":
					unit = "\t "
				case "lines":
					unit = "\n"
				case "comment":
					pre, unit, post = " ;", "x", "\n"
				case "comments":
					pre, unit = "\n", ";x\n"
				}
				mk := func(n int) string { return base[:at] + pre + strings.Repeat(unit, n) + post + base[at:] }
				b1, _ := convRec(c, mode, key, mk(1))
				b2, _ := convRec(c, mode, key, mk(2))
				var bn Rec
				var bnout []byte
				if ci(k, "n") > 500000 { // seconds of work: a generous watchdog, so that a loaded machine is not taken for a hang
					args := append([]string{"text", "conv", mode}, keyArgs(key)...)
					r := c.crdEnv(args, []byte(mk(ci(k, "n"))), nil, 600e9)
					_, okp := projectInstances(r.Stdout)
					bn, bnout = Rec{"ok": okp && r.Exit == 0, "terminated": !r.TimedOut, "panic": r.Panic, "exit": r.Exit}, r.Stdout
				} else {
					bn, bnout = convRec(c, mode, key, mk(ci(k, "n")))
				}
				delete(bn, "s") // too long to carry; the spec judges the one- and two-unit texts
				delete(bn, "out")
				return []Rec{{"kind": "stretch", "sub": cs(k, "kind"), "a": a, "b1": b1, "b2": b2, "bn": bn, "n": ci(k, "n"), "unit": chars(unit), "sameBytes": bytes.Equal(aout, bnout)}}
			}
			for i := 0; i < ci(k, "variants"); i++ {
				vt := joinTokens(toks, rng, false, 1+rng.Intn(4), cb(k, "padAll"))
				b, bout := convRec(c, mode, key, vt)
				recs = append(recs, Rec{"kind": "pair", "sub": fmt.Sprint(i), "a": a, "b": b, "sameBytes": bytes.Equal(aout, bout)})
			}
			return recs
		},
		Key: func(r Rec) string {
			if r["kind"] == "stretch" {
				return fmt.Sprint(r["a"].(Rec)["s"], r["b1"].(Rec)["s"], r["n"])
			}
			return fmt.Sprint(r["a"].(Rec)["s"], r["b"].(Rec)["s"])
		},
	})
}
