package main

import (
	"crypto/sha256"
	"fmt"
	"os"
	"strings"
	"time"

	"verif/harness/internal/run"
)

type req struct {
	name  string
	args  []string
	stdin string // "" = no input
}

func c12Requests() []req {
	text1 := "C[1] G_7/B[1,1/2]{key=Am, txt=hi there, bpm=90} R[2] F#m7b5[1/3]{vel=ff,mtr=3/4,lic=la}\n"
	textDeg := "2m7[1] 5_7[1]{key=Eb,mrk=x} 1maj7[2]\n"
	var big strings.Builder // > 100 AST nodes per chord list: the iterator's channel (capacity 100) fills up
	for i := 0; i < 60; i++ {
		fmt.Fprintf(&big, "C[1,1/2]{a=b,c=d} D_7/F#[2] ")
	}
	mixedLate := big.String() + " 2[1]\n" // classification fails late, after > 100 nodes
	mixedEarly := "C[1] 2[1] " + big.String() + "\n"
	yml := "- chord: {degree: \"b3\", name: m7, base: \"5\"}\n  values: [\"1\", \"1/2\"]\n  bpm: 120\n  velocity: ff\n  meter: \"3/4\"\n  key: Ebm\n  meta: {txt: hello, lic: la, mrk: m, zz: top, aa: x}\n- values: [2]\n- chord: {degree: \"5\", name: \"7\"}\n  values: [\"1/3\"]\n"
	var restsFirst strings.Builder // the channel fills up with nodes that carry no degree before the first chord is reached
	for i := 0; i < 45; i++ {
		restsFirst.WriteString("R[1] ")
	}
	restsFirst.WriteString("C[1] G_7[2] Am[1]\n")
	var huge strings.Builder
	for i := 0; i < 40; i++ {
		huge.WriteString("R[1,1/2] ")
	}
	for i := 0; i < 4000; i++ {
		huge.WriteString("C[1] D_7/F#[2] ")
	}
	var modul strings.Builder // a long piece that changes key several times (state carried through hundreds of chords)
	for i := 0; i < 400; i++ {
		switch i {
		case 50:
			modul.WriteString("D[1]{key=D} ")
		case 140:
			modul.WriteString("Eb[1]{key=Eb} ")
		case 141:
			modul.WriteString("R[1]{key=F#m} ")
		case 300:
			modul.WriteString("C[2]{key=C} ")
		default:
			modul.WriteString([]string{"C[1] ", "F#m7b5/A[1,1/2] ", "Bb_7[2] ", "G[1] "}[i%4])
		}
	}
	var longYml strings.Builder // > 32 KiB of instances
	for i := 0; i < 900; i++ {
		fmt.Fprintf(&longYml, "- chord: {degree: \"%d\", name: m7}\n  values: [\"1\", \"1/2\"]\n", 1+i%7)
	}
	rs := []req{
		{"text parse BOM syntax error", []string{"text", "parse"}, "\ufeffC[1] D[1]\n"},
		{"text conv degree BOM syntax error", []string{"text", "conv", "degree"}, "\ufeff1[1] 5_7[1]\n"},
		{"text conv long with modulations", []string{"text", "conv", "syllable"}, modul.String()},
		{"write long", []string{"write"}, longYml.String()},
		{"write parse long", []string{"write", "parse"}, longYml.String()},
		{"text conv rests first", []string{"text", "conv", "syllable"}, restsFirst.String()},
		{"text conv huge", []string{"text", "conv", "syllable", "--key", "G"}, huge.String()},
		{"text parse", []string{"text", "parse"}, text1},
		{"text parse big", []string{"text", "parse"}, big.String()},
		{"text conv syllable", []string{"text", "conv", "syllable"}, text1},
		{"text conv syllable big", []string{"text", "conv", "syllable", "--key", "D"}, big.String()},
		{"text conv degree", []string{"text", "conv", "degree"}, textDeg},
		{"text conv mixed late", []string{"text", "conv", "syllable"}, mixedLate},
		{"text conv mixed early", []string{"text", "conv", "syllable"}, mixedEarly},
		{"text parse syntax error", []string{"text", "parse"}, "C[1] D[\n"},
		{"write", []string{"write"}, yml},
		{"write track 3", []string{"write", "--track", "3"}, yml},
		// many tracks: if anything about them ran concurrently, sixteen of them would hardly ever finish in the same order twice
		{"write track 16", []string{"write", "--track", "16"}, yml},
		{"write event track 12", []string{"write", "event", "--track", "12"}, yml},
		{"write event", []string{"write", "event"}, yml},
		{"write parse", []string{"write", "parse"}, yml},
		{"write conv", []string{"write", "conv", "-c", "cmt"}, yml},
		{"write bad", []string{"write"}, "- values: []\n"},
		{"write too long", []string{"write"}, "- chord: {degree: \"1\", name: \"\"}\n  values: [\"300000\"]\n"}, // refused when the file is rendered
		{"write event too long track 2", []string{"write", "event", "--track", "2"}, "- chord: {degree: \"1\", name: \"\"}\n  values: [\"200000\"]\n- values: [\"200000\"]\n"},
		{"info attr list", []string{"info", "attr", "list"}, ""},
		{"info attr describe", []string{"info", "attr", "describe", "-t", "Minor7", "-r", "C#", "-s"}, ""},
		{"info chord list", []string{"info", "chord", "list"}, ""},
		{"info chord describe", []string{"info", "chord", "describe", "-t", "Eb_m7b5"}, ""},
		{"info key list", []string{"info", "key", "list"}, ""},
		{"gen attr", []string{"gen", "attr", "-d", "30"}, ""},
	}
	// chords whose keys are not in ascending order (a bass above the chord tones: compound slash bass)
	ymlHigh := "- chord: {degree: \"1\", name: \"\", base: \"9\"}\n  values: [\"1\"]\n- chord: {degree: \"5\", name: \"7\", base: \"b10\"}\n  values: [\"1\"]\n- chord: {degree: \"2\", name: m, base: \"13\"}\n  values: [\"1/2\"]\n"
	rs = append(rs,
		req{"write high bass", []string{"write"}, ymlHigh},
		req{"write event high bass track 3", []string{"write", "event", "--track", "3"}, ymlHigh},
		req{"text conv degree high bass", []string{"text", "conv", "degree"}, "1/9[1] 5_7/10b[1] 2m/13[1/2]\n"})
	// user dictionaries: entries that collide with built-ins on the display symbol or on the name (later wins, every run)
	rs = append(rs,
		req{"write user display collision", []string{"write", "event", "--chord", "@DICT1"}, "- chord: {degree: \"1\", name: \"7\"}\n  values: [\"1\"]\n- chord: {degree: \"1\", name: \"m\"}\n  values: [\"1\"]\n- chord: {degree: \"1\", name: DominantSeventh}\n  values: [\"1\"]\n"},
		req{"info chord describe user collision", []string{"info", "chord", "describe", "-t", "C_7", "--chord", "@DICT1"}, ""},
		req{"info chord list user", []string{"info", "chord", "list", "--chord", "@DICT1"}, ""},
		req{"write parse user collision", []string{"write", "parse", "--chord", "@DICT1"}, "- chord: {degree: \"1\", name: \"7\"}\n  values: [\"1\"]\n"})
	for _, k := range []string{"C", "F#", "Ebm", "Cb", "D#m", "G"} {
		rs = append(rs, req{"info key describe " + k, []string{"info", "key", "describe", "--key", k}, ""})
	}
	for _, kc := range [][2]string{{"E", "d"}, {"C", "p"}, {"Ab", "s"}, {"F#m", "d"}, {"B", "ds"}, {"Bbm", "s"}, {"Cb", "r"}, {"B", "d"}, {"G#m", "d"}, {"Ab", "s"}, {"F#", "p"}, {"C#", "dddddddddddd"}, {"C", "ddddddd"}, {"A", "rp"}} {
		rs = append(rs, req{"info key conv " + kc[0] + " " + kc[1], []string{"info", "key", "conv", "--key", kc[0], "-c", kc[1]}, ""})
	}
	return rs
}

func init() {
	register("c12", Def{
		Rule: "every data-producing command (text parse/conv incl. inputs with > 100 AST nodes and failing classifications, write, write event/parse/conv, info attr/chord/key *, gen attr) x k repetitions " +
			"(quick 8, thorough 40) spread over GOMAXPROCS 1/2/16, --debug on/off, input on stdin (pipe, slow pipe, `< file`) / as `-` / as FILE, user dictionary as a file, output on stdout / with -o (fresh, or an existing longer file) (thorough: also the -race build); a record is one request " +
			"class with the sha-256 of every run's output; distinct = distinct request classes",
		Gen: func(c *Ctx) []Case {
			cases := []Case{}
			for i := range c12Requests() {
				cases = append(cases, Case{"i": i})
			}
			return cases
		},
		Exec: func(c *Ctx, k Case) []Rec {
			rq := c12Requests()[ci(k, "i")]
			reps := 8
			if !c.quick() {
				reps = 40
			}
			outs := [][]any{}
			sinks := [][]any{}
			dsinks := [][]any{}
			for i := 0; i < reps; i++ {
				args := append([]string{}, rq.args...)
				dictViaFifo := false
				for ai, a := range args {
					if a == "@DICT1" {
						dictViaFifo = false // (a dictionary through a named pipe: in no sentence of C12 -- second audit)
						args[ai] = c.writeTemp(fmt.Sprintf("dict1-%d.yml", nextID()), "- name: UserSeven\n  meta: {display: \"7\"}\n  attributes: [Perfect1, Major3, Perfect5, Major6]\n- name: UserMinor\n  meta: {display: m}\n  extends: MajorTriad\n  attributes: [Minor7]\n- name: DominantSeventh\n  meta: {display: dom}\n  attributes: [Perfect1, Perfect4]\n")
					}
				}
				var dictFifo map[string][]byte
				if dictViaFifo {
					for ai, a := range args {
						if strings.Contains(a, "dict1-") {
							if b, err := os.ReadFile(a); err == nil {
								os.Remove(a)
								dictFifo = map[string][]byte{a: b} // the same path, now a named pipe
								_ = ai
							}
						}
					}
				}
				variant := []string{}
				if dictFifo != nil {
					variant = append(variant, "dict=fifo")
				}
				env := []string{"GOMAXPROCS=" + []string{"1", "2", "16", "4"}[i%4]}
				if i%8 == 3 || i%8 == 7 { // the -o runs: temporary files, if a command uses any, live on another file system
					env = append(env, "TMPDIR=/dev/shm")
				}
				variant = append(variant, env[0])
				bin := c.Bin
				if !c.quick() && i%10 == 9 {
					if _, err := os.Stat(c.Bin + ".race"); err == nil {
						bin = c.Bin + ".race"
						variant = append(variant, "race")
					}
				}
				if i%3 == 1 {
					args = append(args, "--debug")
					variant = append(variant, "--debug")
				}
				var stdin []byte
				var tmp []string
				stdinMode := ""
				var fifos map[string][]byte
				if rq.stdin != "" {
					switch i % 5 {
					case 1:
						args = append(args, "-")
						stdin = []byte(rq.stdin)
						variant = append(variant, "dash")
					case 2, 4:
						f := c.writeTemp(fmt.Sprintf("in%d $HOME ~t ${X}", nextID()), rq.stdin)
						tmp = append(tmp, f)
						args = append(args, f)
						variant = append(variant, "FILE")
					case 3:
						stdin = []byte(rq.stdin)
						stdinMode = "slow" // a slow producer writing small blocks with pauses
						variant = append(variant, "stdin-slow")
						// FILE given as /dev/stdin, or as a named pipe (process substitution); which requests get which rotates with
						// the request index so that the quick tier sees all three on every kind of command
						// (no longer: a FILE argument that is not a regular file is not what the statement speaks of -- second audit)
						if sel := 0; sel != 0 {
							if sel == 1 {
								args = append(args, "/dev/stdin")
								stdinMode = ""
								variant[len(variant)-1] = "FILE=/dev/stdin"
							} else {
								fp := c.writeTemp(fmt.Sprintf("fifo%d", nextID()), "")
								os.Remove(fp)
								fifos = map[string][]byte{fp: []byte(rq.stdin)}
								args = append(args, fp)
								stdin = nil
								stdinMode = ""
								variant[len(variant)-1] = "FILE=fifo"
							}
						}
					default:
						stdin = []byte(rq.stdin)
						if i > 0 {
							stdinMode = "file" // `< file` redirect instead of a pipe
						}
						variant = append(variant, "stdin"+map[string]string{"": "", "file": "-file"}[stdinMode])
					}
				}
				ofile := ""
				sink, ofifo := false, ""
				if i%4 == 3 {
					// the -o file may already exist and be longer than the result: it must be replaced, not overwritten in place
					ofile = c.writeTemp(fmt.Sprintf("out%d", nextID()), strings.Repeat("stale output of an earlier run\n", 4000))
					if i%8 == 7 {
						os.Remove(ofile)
					}
					tmp = append(tmp, ofile)
					variant = append(variant, "-o")
					// (for a while the target could also be a named pipe, /dev/null or the input file itself: the statement speaks
					// of "the -o file", and a crd that writes a temporary file and renames it, or opens its output first, keeps
					// every sentence of it -- DESIGN 10.5)
					args = append(args, "-o", ofile)
				}
				if dictFifo != nil {
					if fifos == nil {
						fifos = map[string][]byte{}
					}
					for k2, v2 := range dictFifo {
						fifos[k2] = v2
					}
				}
				var r struct {
					Exit     int
					Stdout   []byte
					TimedOut bool
				}
				var fifoBytes []byte
				if ofifo != "" {
					x := run.Run(bin, run.Cmd{Args: args, Stdin: stdin, Env: env, Timeout: 60 * time.Second, StdinMode: stdinMode, Fifos: fifos, OutFifos: []string{ofifo}})
					r.Exit, r.Stdout, r.TimedOut = x.Exit, x.Stdout, x.TimedOut
					fifoBytes = x.FifoOut[ofifo]
				} else {
					r = runWith(bin, args, stdin, env, stdinMode, fifos)
				}
				out := r.Stdout
				if sink {
					// nothing to compare but the outcome: same success as every other run, nothing on stdout (the --debug runs are
					// kept apart, like everywhere else: the one open finding is about what --debug puts on stdout)
					sk := []any{r.Exit == 0, len(r.Stdout), strings.Join(variant, " "), !r.TimedOut}
					if strings.Contains(strings.Join(variant, " "), "--debug") {
						dsinks = append(dsinks, sk)
					} else {
						sinks = append(sinks, sk)
					}
					continue
				}
				if ofifo != "" && r.Exit == 0 {
					out = append(append([]byte{}, r.Stdout...), fifoBytes...)
				} else if ofile != "" && r.Exit == 0 { // a failed run has no result; whether it leaves an existing file alone is not C12's business
					if b, err := os.ReadFile(ofile); err == nil {
						out = append(append([]byte{}, r.Stdout...), b...) // what the user gets: stdout must stay empty, the file carries the result
					}
				}
				for _, f := range tmp {
					os.Remove(f)
				}
				outs = append(outs, []any{r.Exit == 0, fmt.Sprintf("%x", sha256.Sum256(out))[:16], len(out), strings.Join(variant, " "), !r.TimedOut})
			}
			// an output device that opens but refuses every write (/dev/full): whatever a command does about it, it does the same
			// for standard output and for -o
			fullArgs := append([]string{}, rq.args...)
			var fullIn []byte
			if rq.stdin != "" {
				fullIn = []byte(rq.stdin)
			}
			for ai, a := range fullArgs {
				if a == "@DICT1" {
					fullArgs[ai] = "/dev/null"
				}
			}
			fo := run.Run(c.Bin, run.Cmd{Args: append(append([]string{}, fullArgs...), "-o", "/dev/full"), Stdin: fullIn, Timeout: 60 * time.Second})
			fs := run.Run(c.Bin, run.Cmd{Args: fullArgs, Stdin: fullIn, Timeout: 60 * time.Second, StdoutPath: "/dev/full"})
			full := []any{fo.Exit == 0, fs.Exit == 0, !fo.TimedOut && !fs.TimedOut, !fo.Panic && !fs.Panic}
			// history of the runs without --debug, and the --debug runs compared with them (two records, so that a
			// listed finding about --debug cannot hide nondeterminism of the plain runs)
			plain, dbg := [][]any{}, [][]any{}
			for _, o := range outs {
				if strings.Contains(o[3].(string), "--debug") {
					dbg = append(dbg, o)
				} else {
					plain = append(plain, o)
				}
			}
			return []Rec{{"kind": "group", "cls": rq.name, "outs": plain, "sinks": sinks, "full": full},
				{"kind": "debug", "sub": "debug", "cls": rq.name, "plain": plain[0], "outs": dbg, "sinks": dsinks}}
		},
	})
}

func runWith(bin string, args []string, stdin []byte, env []string, stdinMode string, fifos map[string][]byte) (r struct {
	Exit     int
	Stdout   []byte
	TimedOut bool
}) {
	x := run.Run(bin, run.Cmd{Args: args, Stdin: stdin, Env: env, Timeout: 60 * time.Second, StdinMode: stdinMode, Fifos: fifos})
	r.Exit, r.Stdout, r.TimedOut = x.Exit, x.Stdout, x.TimedOut
	return
}
