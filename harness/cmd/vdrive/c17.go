package main

import (
	"verif/harness/internal/smf"

	"gopkg.in/yaml.v3"
)

func noteOns(f smf.File) []int {
	out := []int{}
	for _, e := range f.Events {
		if e.Kind == smf.KindOn && e.B > 0 {
			out = append(out, e.A)
		}
	}
	return out
}

func init() {
	register("c17", Def{
		Debug:      true,
		Rule:       "28 supported keys: `info key describe --key K`, then each of the 14 listed chords fed through `text conv syllable --key K | write --key K`; one record per (key, chord), all distinct",
		Exhaustive: true,
		Gen: func(c *Ctx) []Case {
			cases := []Case{}
			for _, k := range supportedKeys {
				cases = append(cases, Case{"key": k})
			}
			return cases
		},
		Exec: func(c *Ctx, k Case) []Rec {
			key := cs(k, "key")
			r := c.crd([]string{"info", "key", "describe", "--key", key}, nil)
			var ki yKeyInfo
			if len(r.Stdout) == 0 || yaml.Unmarshal(r.Stdout, &ki) != nil {
				return []Rec{{"kind": "nodesc", "key": chars(key)}}
			}
			recs := []Rec{{"kind": "lists", "key": chars(key), "ntriads": len(ki.Diatonic.Triads), "nsevenths": len(ki.Diatonic.Sevenths)}}
			one := func(which string, depth, i int, text string) Rec {
				rec := Rec{"kind": "chord", "sub": which + string(rune('0'+i)), "key": chars(key), "which": which, "depth": depth, "i": i, "text": chars(text),
					"convOk": false, "writeOk": false, "name": "", "degree": []int{}, "hasBase": false, "ons": []int{}}
				r1 := c.crd([]string{"text", "conv", "syllable", "--key", key}, []byte(text+"[1]\n"))
				var ins []yInstance
				if len(r1.Stdout) == 0 || yaml.Unmarshal(r1.Stdout, &ins) != nil || len(ins) != 1 || ins[0].Chord == nil {
					return rec
				}
				rec["convOk"] = true
				rec["name"] = ins[0].Chord.Name
				rec["degree"] = chars(ins[0].Chord.Degree)
				rec["hasBase"] = ins[0].Chord.Base != nil
				r2 := c.crd([]string{"write", "--key", key}, r1.Stdout)
				f := smf.Parse(r2.Stdout)
				if f.Err != "" {
					return rec
				}
				rec["writeOk"] = true
				rec["ons"] = noteOns(f)
				return rec
			}
			// the whole listing in ONE piece, twice, after a rest: each chord must sound as when played alone
			if len(ki.Diatonic.Triads) == 7 && len(ki.Diatonic.Sevenths) == 7 {
				all := append(append([]string{}, ki.Diatonic.Triads...), ki.Diatonic.Sevenths...)
				text := "R[1] "
				for rep := 0; rep < 2; rep++ {
					for _, t := range all {
						text += t + "[1] "
					}
				}
				seq := Rec{"kind": "seq", "sub": "seq", "key": chars(key), "ok": false, "runs": [][]int{}}
				r1 := c.crd([]string{"text", "conv", "syllable", "--key", key}, []byte(text))
				if r1.Exit == 0 && len(r1.Stdout) > 0 {
					r2 := c.crd([]string{"write", "--key", key}, r1.Stdout)
					f := smf.Parse(r2.Stdout)
					if r2.Exit == 0 && f.Err == "" {
						runs := strikesByTick(f)
						seq["ok"], seq["runs"] = true, runs
					}
				}
				recs = append(recs, seq)
			}
			for i, t := range ki.Diatonic.Triads {
				recs = append(recs, one("triad", 3, i+1, t))
			}
			for i, t := range ki.Diatonic.Sevenths {
				recs = append(recs, one("seventh", 4, i+1, t))
			}
			return recs
		},
	})
}
