package main

import (
	"gopkg.in/yaml.v3"
)

// all 42 spellings [A-G][#b]?m?
func allKeySpellings() []string {
	out := []string{}
	for _, m := range []string{"", "m"} {
		for _, l := range []string{"C", "D", "E", "F", "G", "A", "B"} {
			for _, a := range []string{"", "#", "b"} {
				out = append(out, l+a+m)
			}
		}
	}
	return out
}

// the 28 keys the property names
var supportedKeys = []string{
	"Cb", "Gb", "Db", "Ab", "Eb", "Bb", "F", "C", "G", "D", "A", "E", "B", "F#", "C#",
	"Am", "Em", "Bm", "F#m", "C#m", "G#m", "D#m", "Dm", "Gm", "Cm", "Fm", "Bbm", "Ebm",
}

type yScale struct {
	Key   string   `yaml:"key"`
	Notes []string `yaml:"notes"`
	Flat  int      `yaml:"flat"`
	Sharp int      `yaml:"sharp"`
}

type yKeyInfo struct {
	Scale    yScale `yaml:"scale"`
	Diatonic struct {
		Triads   []string `yaml:"triads"`
		Sevenths []string `yaml:"sevenths"`
	} `yaml:"diatonic"`
}

func strsChars(ss []string) [][]int {
	out := [][]int{}
	for _, s := range ss {
		out = append(out, chars(s))
	}
	return out
}

func scaleRec(kind string, asked string, s yScale) Rec {
	return Rec{
		"kind": kind, "asked": chars(asked), "described": true,
		"key": chars(s.Key), "notes": strsChars(s.Notes), "flat": s.Flat, "sharp": s.Sharp,
	}
}

func init() {
	register("c13", Def{
		Debug:      true,
		Rule:       "every scale printed by `info key list`, the set of listed keys, and `info key describe --key K` for all 42 spellings [A-G][#b]?m?; a record is one (command, key) observation, all distinct",
		Exhaustive: true,
		Gen: func(c *Ctx) []Case {
			cases := []Case{{"cmd": "list"}}
			for _, k := range allKeySpellings() {
				cases = append(cases, Case{"cmd": "describe", "key": k})
			}
			return cases
		},
		Exec: func(c *Ctx, k Case) []Rec {
			if cs(k, "cmd") == "list" {
				// the listing: every listed scale is a record; plus one record carrying the set of listed keys
				r := c.crd([]string{"info", "key", "list"}, nil)
				var list []yScale
				listOK := !r.TimedOut && len(r.Stdout) > 0 && yaml.Unmarshal(r.Stdout, &list) == nil
				listed := []string{}
				recs := []Rec{}
				for _, s := range list {
					listed = append(listed, s.Key)
					x := scaleRec("listed", s.Key, s)
					x["sub"] = s.Key
					recs = append(recs, x)
				}
				return append(recs, Rec{"kind": "listing", "ok": listOK, "keys": strsChars(listed)})
			}
			key := cs(k, "key")
			r := c.crd([]string{"info", "key", "describe", "--key", key}, nil)
			var ki yKeyInfo
			if len(r.Stdout) > 0 && yaml.Unmarshal(r.Stdout, &ki) == nil && ki.Scale.Key != "" {
				return []Rec{scaleRec("describe", key, ki.Scale)}
			}
			return []Rec{{
				"kind": "describe", "asked": chars(key), "described": false,
				"stdoutLen": len(r.Stdout), "stderrLen": len(r.Stderr), "terminated": !r.TimedOut, "panic": r.Panic,
			}}
		},
	})
}
