package main

import (
	"bufio"
	"encoding/json"
	"fmt"
	"go/scanner"
	"go/token"
	"math/rand"
	"os"
	"os/exec"
	"path/filepath"
	"strings"

	"gopkg.in/yaml.v3"
	"verif/harness/internal/run"
)

// ---- projection of `crd text parse` YAML
type yTok struct {
	Value string `yaml:"value"`
}
type yDeg struct {
	Degree     *yTok `yaml:"degree"`
	Accidental *yTok `yaml:"accidental"`
}
type yItem struct {
	Degree *yDeg `yaml:"degree"`
	Symbol *struct {
		Symbol *yTok `yaml:"symbol"`
	} `yaml:"symbol"`
	Base *struct {
		Degree *yDeg `yaml:"degree"`
	} `yaml:"base"`
	Values *struct {
		Values []struct {
			Num   *yTok `yaml:"num"`
			Denom *yTok `yaml:"denom"`
		} `yaml:"values"`
	} `yaml:"values"`
	Meta *struct {
		Data []struct {
			Key   *yTok `yaml:"key"`
			Value *yTok `yaml:"value"`
		} `yaml:"data"`
	} `yaml:"meta"`
}
type yTree struct {
	List []yItem `yaml:"list"`
}

func tv(t *yTok) []int {
	if t == nil {
		return []int{}
	}
	return chars(t.Value)
}

func projectTree(t yTree) []Rec {
	out := []Rec{}
	for _, it := range t.List {
		r := Rec{"rest": it.Degree == nil, "root": []int{}, "acc": []int{}, "hasSym": false, "sym": []int{}, "hasBase": false,
			"broot": []int{}, "bacc": []int{}, "vals": [][][]int{}, "meta": [][][]int{}}
		if it.Degree != nil {
			r["root"] = tv(it.Degree.Degree)
			r["acc"] = tv(it.Degree.Accidental)
		}
		if it.Symbol != nil && it.Symbol.Symbol != nil {
			r["hasSym"] = true
			r["sym"] = tv(it.Symbol.Symbol)
		}
		if it.Base != nil && it.Base.Degree != nil {
			r["hasBase"] = true
			r["broot"] = tv(it.Base.Degree.Degree)
			r["bacc"] = tv(it.Base.Degree.Accidental)
		}
		vals := [][][]int{}
		if it.Values != nil {
			for _, v := range it.Values.Values {
				vals = append(vals, [][]int{tv(v.Num), tv(v.Denom)})
			}
		}
		r["vals"] = vals
		meta := [][][]int{}
		if it.Meta != nil {
			for _, m := range it.Meta.Data {
				meta = append(meta, [][]int{tv(m.Key), tv(m.Value)})
			}
		}
		r["meta"] = meta
		out = append(out, r)
	}
	return out
}

// parseRec runs `crd text parse` on text and projects the outcome
func parseRec(c *Ctx, text string, claim []string, sub string) Rec {
	// the text reaches the parser by one of the documented routes ([FILE] or stdin): the language is the same on all of them
	var r run.Result
	if via := viaFor(text); via != "" && len(text) > 0 {
		r = c.crdVia([]string{"text", "parse"}, []byte(text), via)
	} else {
		r = c.crd([]string{"text", "parse"}, []byte(text))
	}
	rec := Rec{"kind": "text", "sub": sub, "s": chars(text), "accepted": false, "items": []Rec{}, "terminated": !r.TimedOut,
		"stdoutLen": len(r.Stdout), "stderrLen": len(r.Stderr), "exit": r.Exit, "panic": r.Panic, "claim": claim, "hasClaim": claim != nil}
	if claim == nil {
		rec["claim"] = []string{}
	}
	var t yTree
	if r.Exit == 0 && len(r.Stdout) > 0 && yaml.Unmarshal(r.Stdout, &t) == nil {
		rec["accepted"] = true
		rec["items"] = projectTree(t)
	}
	return rec
}

// regenRec: "the parser shipped is the one goyacc generates from that grammar file". The goyacc the module pins (`go tool
// goyacc`, as in the go:generate line of input/ast/chords.go) is run on the working tree's chords.y with its output in the
// scratch directory, and the Go token sequences (comments and layout ignored) of the two parsers are compared.
func regenRec(c *Ctx) Rec {
	rec := Rec{"kind": "regen", "sub": "regen", "ran": false, "same": false, "ntok": 0, "firstDiff": -1, "why": ""}
	dir := filepath.Join(c.Repo, "input", "ast")
	shipped, err := os.ReadFile(filepath.Join(dir, "chords_goyacc_generated.go"))
	if err != nil {
		rec["why"] = "no shipped parser: " + err.Error()
		return rec
	}
	out := c.writeTemp(fmt.Sprintf("regen%d.go", nextID()), "")
	defer os.Remove(out)
	defer os.Remove(out + ".output")
	cmd := exec.Command("go", "tool", "goyacc", "-o", out, "-v", out+".output", "chords.y")
	cmd.Dir = dir
	cmd.Env = append(os.Environ(), "GOFLAGS=-mod=mod", "GOPROXY=off")
	if b, err := cmd.CombinedOutput(); err != nil {
		rec["why"] = "goyacc could not be run: " + err.Error() + ": " + string(b)
		return rec
	}
	fresh, err := os.ReadFile(out)
	if err != nil || len(fresh) == 0 {
		rec["why"] = "goyacc wrote nothing"
		return rec
	}
	a, b := goTokens(shipped), goTokens(fresh)
	rec["ran"], rec["ntok"] = true, len(a)
	same := len(a) == len(b)
	for i := 0; i < len(a) && i < len(b); i++ {
		if a[i] != b[i] {
			same = false
			rec["firstDiff"] = i
			rec["why"] = fmt.Sprintf("token %d: shipped %q, regenerated %q", i, a[i], b[i])
			break
		}
	}
	if !same && rec["why"] == "" {
		rec["why"] = fmt.Sprintf("%d tokens shipped, %d regenerated", len(a), len(b))
	}
	rec["same"] = same
	return rec
}

func goTokens(src []byte) []string {
	fset := token.NewFileSet()
	var sc scanner.Scanner
	sc.Init(fset.AddFile("x.go", -1, len(src)), src, nil, 0) // comments skipped
	out := []string{}
	for {
		_, tok, lit := sc.Scan()
		if tok == token.EOF {
			return out
		}
		if tok == token.SEMICOLON && lit == "\n" {
			continue // automatic semicolons depend on the layout
		}
		out = append(out, tok.String()+" "+lit)
	}
}

var metaTexts = []string{"key", "Am", "txt", "hello world", "bpm", "120", "a;b", "x y ", "vel", "ff", "mtr", "3/4x", "é♭", "_[]", "大好き", "Život", "日本語", "Ľ", "x\x07y"}
var plainSymbols = []string{"m", "m7", "dim", "aug", "maj7", "sus4", "m7b5", "mM7", "add9", "M7", "x]y", "m{1}", "o,"}
var underSymbols = []string{"7", "9", "6", "7sus4", "b5", "C", "#11", "R", "m"}

// renderSentence renders token types to text with seeded trivia and spellings.
func renderSentence(rng *rand.Rand, toks []string, triviaP float64) string {
	var sb strings.Builder
	inMeta := false
	prev := ""
	for _, t := range toks {
		// trivia before the token
		if rng.Float64() < triviaP && prev != "METADATA" {
			choices := []string{" ", "\t", "\n", "  ", " \n ", "\r\n", "\f", "\v", "\u00a0", "\u3000", "\u2028 ", "\u2003"}
			if !inMeta && prev != "UNDERSCORE" {
				choices = append(choices, ";c\n", " ; a [b] {c}\n", ";\n", ";a\n;b\n", "; one\n ; two\n;three\n", ";1\n;2\n;3\n;4\n;5\n", "\n;x\n\n;y\n", ";a\tb R[4]\n", ";\tv\r\n")
			}
			sb.WriteString(choices[rng.Intn(len(choices))])
		}
		switch t {
		case "SYLLABLE":
			sb.WriteByte("CDEFGAB"[rng.Intn(7)])
		case "SLASH":
			sb.WriteString("/")
		case "LBRA":
			sb.WriteString("[")
		case "RBRA":
			sb.WriteString("]")
		case "COMMA":
			sb.WriteString(",")
		case "SHARP":
			sb.WriteString([]string{"#", "♯"}[rng.Intn(2)])
		case "FLAT":
			sb.WriteString([]string{"b", "♭"}[rng.Intn(2)])
		case "NUMBER":
			sb.WriteString([]string{"1", "2", "3", "4", "7", "12", "007", "960", "0"}[rng.Intn(9)])
		case "SYMBOL":
			if prev == "UNDERSCORE" {
				sb.WriteString(underSymbols[rng.Intn(len(underSymbols))])
			} else {
				sb.WriteString(plainSymbols[rng.Intn(len(plainSymbols))])
			}
		case "REST":
			sb.WriteString("R")
		case "UNDERSCORE":
			sb.WriteString("_")
		case "LCBRA":
			sb.WriteString("{")
			inMeta = true
		case "RCBRA":
			sb.WriteString("}")
			inMeta = false
		case "EQUAL":
			sb.WriteString("=")
		case "METADATA":
			sb.WriteString(metaTexts[rng.Intn(len(metaTexts))])
		}
		prev = t
	}
	if rng.Intn(3) == 0 {
		sb.WriteString([]string{"\n", " ", " ;end", "\n;x\n", "\n;a\n;b\n;c\n;d\n", ";p\n;q\n;r"}[rng.Intn(6)])
	}
	return sb.String()
}

var allTokenTypes = []string{"SYLLABLE", "SLASH", "LBRA", "RBRA", "COMMA", "SHARP", "FLAT", "NUMBER", "SYMBOL", "REST", "UNDERSCORE",
	"LCBRA", "RCBRA", "EQUAL", "METADATA"}

func loadSentences(path string) [][]string {
	f, err := os.Open(path)
	if err != nil {
		return nil
	}
	defer f.Close()
	out := [][]string{}
	sc := bufio.NewScanner(f)
	sc.Buffer(make([]byte, 1<<20), 1<<24)
	for sc.Scan() {
		var r struct {
			Toks []string `json:"toks"`
		}
		if json.Unmarshal(sc.Bytes(), &r) == nil && len(r.Toks) > 0 {
			out = append(out, r.Toks)
		}
	}
	return out
}

const runeAlphabet = "CR/[]{}=,#b_1;\n mG2♭"       // 20 representative runes
const ctlAlphabet = "C[1]D \x1a\x07\x00\x1b;\n{=}" // with control characters: not white space, so they are symbol text

func init() {
	register("c04", Def{
		Rule: "sentence: every sentence TLC derived from the productions of chords.y (<= L tokens), rendered with seeded trivia/spellings; prefix: every proper prefix of a rendering of each sentence; " +
			"mutation: seeded token deletions / duplications / swaps / replacements; strings: ALL strings over 20 representative runes up to length n (quick n=3, thorough n=4) plus seeded longer ones; " +
			"each through the real `crd text parse` under a watchdog. distinct = distinct texts",
		Key: func(r Rec) string {
			b, _ := json.Marshal([]any{r["s"], r["base"], r["reps"], r["suffix"]})
			return string(b)
		},
		Gen: func(c *Ctx) []Case {
			rng := rand.New(rand.NewSource(c.Seed))
			sents := loadSentences(c.Aux)
			cases := []Case{}
			renderings, n, nrand := 1, 3, 1500
			if !c.quick() {
				renderings, n, nrand = 2, 4, 20000
			}
			for si, toks := range sents {
				for k := 0; k < renderings; k++ {
					p := []float64{0, 0.5}[(si+k)%2]
					cases = append(cases, Case{"cmd": "sentence", "text": renderSentence(rng, toks, p), "claim": toks})
				}
				// proper prefixes of a compact rendering (quick: every third sentence)
				if c.quick() && si%3 != 0 {
					continue
				}
				t := renderSentence(rng, toks, 0.15)
				rs := []rune(t)
				for i := 0; i < len(rs); i++ {
					cases = append(cases, Case{"cmd": "prefix", "text": string(rs[:i])})
				}
				// token mutations
				for k := 0; k < 3; k++ {
					m := append([]string{}, toks...)
					i := rng.Intn(len(m))
					switch rng.Intn(4) {
					case 0:
						m = append(m[:i], m[i+1:]...)
					case 1:
						m = append(m[:i+1], m[i:]...)
					case 2:
						j := rng.Intn(len(m))
						m[i], m[j] = m[j], m[i]
					case 3:
						m[i] = allTokenTypes[rng.Intn(len(allTokenTypes))]
					}
					if len(m) > 0 {
						cases = append(cases, Case{"cmd": "mutation", "text": renderSentence(rng, m, 0.2)})
					}
				}
			}
			// sentences of unbounded length: concatenations of sentences are sentences (a piece is a list of chords and rests)
			if len(sents) > 0 {
				nc := 400
				if !c.quick() {
					nc = 6000
				}
				for i := 0; i < nc; i++ {
					k := 2 + rng.Intn(4)
					toks := []string{}
					for j := 0; j < k; j++ {
						toks = append(toks, sents[rng.Intn(len(sents))]...)
					}
					cases = append(cases, Case{"cmd": "sentence", "text": renderSentence(rng, toks, []float64{0, 0.3, 0.7}[i%3]), "claim": toks})
				}
			}
			for _, s := range stringsOver(runeAlphabet, n) {
				cases = append(cases, Case{"cmd": "strings", "text": s})
			}
			alpha := []rune(runeAlphabet)
			for i := 0; i < nrand; i++ {
				l := n + 1 + rng.Intn(10)
				var sb strings.Builder
				for j := 0; j < l; j++ {
					sb.WriteRune(alpha[rng.Intn(len(alpha))])
				}
				cases = append(cases, Case{"cmd": "strings", "text": sb.String()})
			}
			cases = append(cases, Case{"cmd": "regen"})
			cases = append(cases, Case{"cmd": "strings", "text": ""})
			for _, t := range []string{"C[1] D[1]\x1a\r\ngarbage", "C[1] \x07 E[1] F[1]", "C[1]\x00", "C[1]\x1bD[1]", "\x1aC[1]", "C[1]{a=b\x00c}"} {
				cases = append(cases, Case{"cmd": "strings", "text": t})
			}
			// a byte-order mark, zero-width and other invisible characters are characters like any other (not blanks)
			for _, t := range []string{"\ufeffC[1]", "\ufeffC[1] D[1]\n", "C[1]\ufeff", "\ufeff", "C\ufeff[1]", "C[1] \ufeff D[1]", "C[1]\u200b D[1]", "\u200bC[1]", "C[1]\u00ad", "\u2060C[1]", "C[1]{a=\ufeffb}"} {
				cases = append(cases, Case{"cmd": "strings", "text": t})
			}
			// digits of other scripts are not digits of the notation
			for _, t := range []string{"C[1１]", "1/3१[2]", "2٣[1]", "C[１]", "C[1/２]", "１[1]", "C[1]{bpm=１２０}", "1٣m[1]", "C_７[1]", "5_7/３[1]"} {
				cases = append(cases, Case{"cmd": "strings", "text": t})
			}
			ctl := []rune(ctlAlphabet)
			for i := 0; i < nrand/3; i++ {
				var sb strings.Builder
				for j := 0; j < 3+rng.Intn(12); j++ {
					sb.WriteRune(ctl[rng.Intn(len(ctl))])
				}
				cases = append(cases, Case{"cmd": "strings", "text": sb.String()})
			}
			// long texts (beyond any buffer size): k repetitions of a sentence, then a short suffix that decides acceptance
			if len(sents) > 0 {
				for i, reps := range []int{3000, 9000, 30000} {
					base := renderSentence(rng, sents[(i*37)%len(sents)], 0)
					for _, suffix := range []string{"", "C[", "D[1]{a=b}", "?", "R[1] 2[", "\u3000G[2]"} {
						cases = append(cases, Case{"cmd": "long", "base": base, "reps": reps, "suffix": suffix})
					}
				}
			}
			return cases
		},
		Exec: func(c *Ctx, k Case) []Rec {
			if cs(k, "cmd") == "regen" {
				return []Rec{regenRec(c)}
			}
			if cs(k, "cmd") == "long" {
				base, reps, suffix := cs(k, "base"), ci(k, "reps"), cs(k, "suffix")
				text := strings.Repeat(base+"\n", reps) + suffix // newline: a sentence may end inside a comment
				r := c.crdEnv([]string{"text", "parse"}, []byte(text), nil, 120e9)
				if r.TimedOut {
					// nine seconds of work on an idle machine: before anybody calls it a hang it gets a quarter of an hour, alone
					// (a loaded machine is not a hang -- a false alarm of exactly this kind was seen once under heavy load)
					r = c.crdEnv([]string{"text", "parse"}, []byte(text), nil, 900e9)
				}
				n := 0
				var t yTree
				acc := r.Exit == 0 && len(r.Stdout) > 0 && yaml.Unmarshal(r.Stdout, &t) == nil
				if acc {
					n = len(t.List)
				}
				return []Rec{{"kind": "long", "sub": "long", "base": chars(base), "reps": reps, "suffix": chars(suffix), "bytes": len(text), "accepted": acc,
					"nitems": n, "terminated": !r.TimedOut, "stdoutLen": len(r.Stdout), "stderrLen": len(r.Stderr)}}
			}
			var claim []string
			if cs(k, "cmd") == "sentence" {
				claim = css(k, "claim")
			}
			return []Rec{parseRec(c, cs(k, "text"), claim, cs(k, "cmd"))}
		},
		Extra: func(recs []Rec) map[string]any {
			acc := 0
			regen := "not run"
			for _, r := range recs {
				if r["accepted"] == true {
					acc++
				}
				if r["kind"] == "regen" {
					if r["ran"] == true {
						regen = fmt.Sprintf("goyacc re-run on chords.y: %v tokens, identical to the shipped parser: %v %v", r["ntok"], r["same"], r["why"])
					} else {
						regen = fmt.Sprintf("goyacc not run: %v", r["why"])
					}
				}
			}
			return map[string]any{"accepted": acc, "rejected": len(recs) - acc, "regeneration": regen}
		},
	})
}
