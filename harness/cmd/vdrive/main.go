// vdrive: untrusted generators and projectors for the crd verification
// framework. It runs the real `crd` binary (built by ./check from /repo's
// working tree) on enumerated / generated inputs and projects what it observes
// into ndjson records that TLC validates against the TLA+ specification.
// It never decides a property.
package main

import (
	"bufio"
	"encoding/json"
	"flag"
	"fmt"
	"hash/fnv"
	"os"
	"path/filepath"
	"regexp"
	"runtime"
	"sort"
	"strings"
	"sync"
	"sync/atomic"
	"time"

	"verif/harness/internal/run"
)

type Ctx struct {
	Bin     string
	Seed    int64
	Tier    string
	Out     string
	Workers int
	Replay  string
	Repo    string
	Aux     string // auxiliary input (e.g. the sentences TLC generated from the grammar)

	debugRotate bool
}

// Meta is what a driver reports about the cases it ran (for the evidence file).
type Meta struct {
	Evaluations        int            `json:"evaluations"`
	DistinctNontrivial int            `json:"distinct_nontrivial"`
	Rule               string         `json:"rule"`
	Samples            []any          `json:"samples"`
	Exhaustive         bool           `json:"exhaustive"`
	Traces             int            `json:"traces"`
	Extra              map[string]any `json:"extra,omitempty"`
	Files              []string       `json:"files"` // ndjson files written, in TLC order
}

type driver func(*Ctx) (*Meta, error)

var drivers = map[string]driver{}

// Case is one input for the real code, JSON round-trippable so that a failing
// record can be replayed exactly. Rec is one observation.
type Case = map[string]any
type Rec = map[string]any

// Def is the usual shape of a driver: generate cases, execute each on the
// real binary, project into records. The framework embeds the case in every
// record ("case") so ./check --replay can re-run exactly that case.
type Def struct {
	Gen        func(c *Ctx) []Case
	Exec       func(c *Ctx, cs Case) []Rec
	Rule       string
	Exhaustive bool
	Nontrivial func(r Rec) bool   // nil: every record counts
	Key        func(r Rec) string // distinctness key; nil: JSON of the case + kind
	Extra      func(recs []Rec) map[string]any
	// Debug: the inputs of this driver are valid by construction (no syntax errors: the one open finding, goyacc's trace on
	// stdout, cannot occur), so one request in eight also carries the global --debug flag, which must change nothing
	Debug bool
}

func register(name string, d Def) {
	drivers[name] = func(c *Ctx) (*Meta, error) {
		c.debugRotate = d.Debug
		initLongNames(c)
		initShorts(c)
		var cases []Case
		if c.Replay != "" {
			b, err := os.ReadFile(c.Replay)
			if err != nil {
				return nil, err
			}
			var rp struct {
				Record struct {
					Case Case `json:"case"`
				} `json:"record"`
			}
			if err := json.Unmarshal(b, &rp); err != nil {
				return nil, err
			}
			if rp.Record.Case == nil {
				return nil, fmt.Errorf("replay file has no record.case")
			}
			cases = []Case{rp.Record.Case}
		} else {
			cases = d.Gen(c)
		}
		// normalise cases through JSON so Exec sees the same types on replay
		for i, cs := range cases {
			b, _ := json.Marshal(cs)
			var m Case
			_ = json.Unmarshal(b, &m)
			cases[i] = m
		}
		out := run.ParMap(cases, c.Workers, func(_ int, cs Case) []Rec {
			return d.Exec(c, cs)
		})
		// records.ndjson is what TLC reads (no nulls, no free text); cases.ndjson is line-aligned with it and
		// carries the case that produced each record, for replays and known-finding matching.
		recs := []any{}
		caseLines := []any{}
		flat := []Rec{}
		seen := map[string]bool{}
		nontrivial := 0
		for ci, rs := range out {
			for _, r := range rs {
				recs = append(recs, r)
				caseLines = append(caseLines, cases[ci])
				flat = append(flat, r)
				if d.Nontrivial != nil && !d.Nontrivial(r) {
					continue
				}
				var k string
				if d.Key != nil {
					k = d.Key(r)
				} else {
					b, _ := json.Marshal([]any{cases[ci], r["kind"], r["sub"]})
					k = string(b)
				}
				if !seen[k] {
					seen[k] = true
					nontrivial++
				}
			}
		}
		if err := writeNDJSON(filepath.Join(c.Out, "records.ndjson"), recs); err != nil {
			return nil, err
		}
		if err := writeNDJSON(filepath.Join(c.Out, "cases.ndjson"), caseLines); err != nil {
			return nil, err
		}
		m := &Meta{
			Evaluations: len(cases), DistinctNontrivial: nontrivial, Rule: d.Rule,
			Samples: sampleOf(recs, 3), Exhaustive: d.Exhaustive && c.Replay == "", Traces: len(recs),
			Files: []string{"records.ndjson"},
		}
		if d.Extra != nil {
			m.Extra = d.Extra(flat)
		}
		return m, nil
	}
}

func cs(m Case, k string) string {
	s, _ := m[k].(string)
	return s
}
func ci(m Case, k string) int {
	switch v := m[k].(type) {
	case float64:
		return int(v)
	case int:
		return v
	}
	return 0
}
func cb(m Case, k string) bool { b, _ := m[k].(bool); return b }
func css(m Case, k string) []string {
	out := []string{}
	switch v := m[k].(type) {
	case []any:
		for _, x := range v {
			s, _ := x.(string)
			out = append(out, s)
		}
	case []string:
		return v
	}
	return out
}

func (c *Ctx) quick() bool { return c.Tier != "thorough" }

// hangs counts runs that did not return even when re-run alone with a long watchdog. Once a few have been
// confirmed the watchdog is shortened, so that a tree with a hang is reported in minutes instead of timing the check out.
var hangs atomic.Int64

// how standard input reaches crd is rotated by a hash of the request (so a request always travels the same way): mostly a
// pipe fed at once, one run in eight redirected from a regular file (`< file`), one in eight a slow pipe
func requestHash(args []string, stdin []byte) uint32 {
	h := fnv.New32a()
	for _, a := range args {
		h.Write([]byte(a))
		h.Write([]byte{0})
	}
	h.Write(stdin)
	return mix32(h.Sum32())
}

// mix32 spreads the entropy of a hash over all its bits (murmur3's finaliser): the low bits of FNV-1a depend on the low
// bits of the input bytes only, and the rotations below are chosen by small residues
func mix32(x uint32) uint32 {
	x ^= x >> 16
	x *= 0x85ebca6b
	x ^= x >> 13
	x *= 0xc2b2ae35
	x ^= x >> 16
	return x
}

func stdinModeFor(args []string, stdin []byte) string {
	if len(stdin) == 0 || len(stdin) > 1<<16 {
		return ""
	}
	switch requestHash(args, stdin) % 16 { // the low bits choose the input route
	case 0, 1:
		return "file"
	case 2, 3:
		return "slow"
	}
	return ""
}

// the flags that take a value, with their one-letter forms: `--name value`, `--name=value`, `-n value` and `-nvalue` are
// spellings of the same request, and repeated --chord / --attr may be given as one comma-separated list
var valueFlags = map[string]string{"key": "k", "output": "o", "root": "r", "target": "t", "command": "c", "maxDegree": "d", "bpm": "", "meter": "", "velocity": "",
	"track": "", "program": "", "instrument": "", "attr": "", "chord": ""}

// The one-letter forms are read off the binary's own help texts (`-k, --key string`): a crd that frees or renames one
// is not held to the table above.
var shortsOnce sync.Once

func initShorts(c *Ctx) {
	shortsOnce.Do(func() {
		seen, got := map[string]string{}, false
		re := regexp.MustCompile(`(?m)^\s+-(\w), --(\w+)`)
		for _, cmd := range [][]string{{"write", "--help"}, {"info", "key", "conv", "--help"}, {"info", "attr", "describe", "--help"}, {"gen", "attr", "--help"}, {"text", "parse", "--help"}} {
			r := c.crdEnv(cmd, nil, nil, 20*time.Second)
			for _, m := range re.FindAllStringSubmatch(string(r.Stdout)+string(r.Stderr), -1) {
				seen[m[2]], got = m[1], true
			}
		}
		if !got {
			return
		}
		for name, short := range valueFlags {
			if short != "" {
				valueFlags[name] = seen[name]
			}
		}
	})
}

// respell rewrites the flag spellings of a request as chosen by its hash (five requests in eight keep theirs)
func respell(args []string, h uint32) []string {
	sel := (h / 64) % 8
	if sel == 4 {
		return globalsFirst(args)
	}
	if sel < 5 {
		return args
	}
	out := []string{}
	lists := map[string]int{} // index in out of the first --chord / --attr value, for the comma form
	for i := 0; i < len(args); i++ {
		a := args[i]
		name := strings.TrimPrefix(a, "--")
		short, isValue := valueFlags[name]
		if !strings.HasPrefix(a, "--") || !isValue || i+1 >= len(args) {
			out = append(out, a)
			continue
		}
		v := args[i+1]
		i++
		switch {
		case sel == 7 && (name == "chord" || name == "attr") && !strings.Contains(v, ","):
			if j, ok := lists[name]; ok {
				out[j] += "," + v
			} else {
				out = append(out, a, v)
				lists[name] = len(out) - 1
			}
		case sel == 7 && short != "" && v != "" && !strings.HasPrefix(v, "-") && !strings.HasPrefix(v, "="):
			out = append(out, "-"+short+v)
		case sel == 6 && short != "":
			out = append(out, "-"+short, v)
		default:
			out = append(out, a+"="+v)
		}
	}
	return out
}

// globalsFirst moves the global flags (--debug, -o / --output, --attr, --chord) in front of the sub-command: they are
// persistent flags of the root command and may stand anywhere
func globalsFirst(args []string) []string {
	front, rest := []string{}, []string{}
	for i := 0; i < len(args); i++ {
		a := args[i]
		switch {
		case a == "--debug":
			front = append(front, a)
		case (a == "-o" || a == "--output" || a == "--attr" || a == "--chord") && i+1 < len(args):
			front = append(front, a, args[i+1])
			i++
		default:
			rest = append(rest, a)
		}
	}
	if len(front) == 0 {
		return args
	}
	return append(front, rest...)
}

func (c *Ctx) crd(args []string, stdin []byte) run.Result {
	args = respell(args, requestHash(args, stdin))
	mode := stdinModeFor(args, stdin)
	if c.debugRotate && (requestHash(args, stdin)/8)%8 == 3 {
		args = append(append([]string{}, args...), "--debug")
	}
	if hangs.Load() >= 3 {
		return run.Run(c.Bin, run.Cmd{Args: args, Stdin: stdin, StdinMode: mode, Timeout: 1500 * time.Millisecond})
	}
	r := run.Run(c.Bin, run.Cmd{Args: args, Stdin: stdin, StdinMode: mode, Timeout: 10 * time.Second})
	if r.TimedOut {
		// confirm alone-ish with a long watchdog before anybody calls it a hang (a loaded machine is not a hang)
		r = run.Run(c.Bin, run.Cmd{Args: args, Stdin: stdin, StdinMode: mode, Timeout: 40 * time.Second})
		if r.TimedOut {
			hangs.Add(1)
		}
	}
	return r
}

// crdVia feeds `input` to a command that takes [FILE] or stdin by the route `via`: "" (stdin pipe), "redir" (`< file`),
// "dash" (`-`), "file" (a regular FILE), "relfile" (a relative FILE in another working directory), "devstdin" (FILE = /dev/stdin on a pipe), "fifo" (FILE = a named pipe)
func (c *Ctx) crdVia(args []string, input []byte, via string) run.Result {
	cmd := run.Cmd{Args: append([]string{}, args...), Timeout: 20 * time.Second}
	switch via {
	case "redir":
		cmd.Stdin, cmd.StdinMode = input, "file"
	case "dash":
		cmd.Stdin, cmd.Args = input, append(cmd.Args, "-")
	case "file":
		f := c.writeTemp(fmt.Sprintf("via%d $HOME ~x ${USER} %%d", nextID()), string(input)) // (a name is a name: nothing in it is expanded)
		defer os.Remove(f)
		cmd.Args = append(cmd.Args, f)
	case "relfile": // a FILE named relative to a working directory that is not where crd lives
		f := c.writeTemp(fmt.Sprintf("rel%d", nextID()), string(input))
		defer os.Remove(f)
		cmd.Dir = filepath.Dir(f)
		cmd.Args = append(cmd.Args, "./"+filepath.Base(f))
	case "devstdin":
		cmd.Stdin, cmd.Args = input, append(cmd.Args, "/dev/stdin")
	case "fifo":
		f := c.writeTemp(fmt.Sprintf("viafifo%d", nextID()), "")
		os.Remove(f)
		cmd.Fifos = map[string][]byte{f: input}
		cmd.Args = append(cmd.Args, f)
	default:
		cmd.Stdin = input
	}
	return run.Run(c.Bin, cmd)
}

// (FILE = /dev/stdin and FILE = a named pipe were routes of every driver for a while; the statements speak of "a FILE argument",
// and a crd that insists on a regular file there keeps every sentence -- second audit, DESIGN 10.66.  The two cases of
// crdVia stay for drivers that ask for them by name; none does any more.)
var viaRoutes = []string{"redir", "dash", "file", "relfile"}

// viaFor picks a route from a hash of the input: 4 in 16 requests leave the plain pipe
func viaFor(input string) string {
	h := fnv.New32a()
	h.Write([]byte(input))
	if k := int(mix32(h.Sum32()) % 16); k < len(viaRoutes) {
		return viaRoutes[k]
	}
	return ""
}

func (c *Ctx) crdEnv(args []string, stdin []byte, env []string, to time.Duration) run.Result {
	r := run.Run(c.Bin, run.Cmd{Args: args, Stdin: stdin, Env: env, Timeout: to})
	if r.TimedOut && to >= 20*time.Second && to < 600*time.Second {
		// a loaded machine is not a hang: once more, with five times the patience, before anybody says "did not terminate"
		r = run.Run(c.Bin, run.Cmd{Args: args, Stdin: stdin, Env: env, Timeout: 5 * to})
	}
	return r
}

func chars(s string) []int {
	r := []int{}
	for _, x := range s {
		r = append(r, int(x))
	}
	return r
}

func bytesOf(b []byte) []int {
	r := make([]int, len(b))
	for i, x := range b {
		r[i] = int(x)
	}
	return r
}

func writeNDJSON(path string, recs []any) error {
	f, err := os.Create(path)
	if err != nil {
		return err
	}
	w := bufio.NewWriterSize(f, 1<<20)
	enc := json.NewEncoder(w)
	enc.SetEscapeHTML(false)
	for _, r := range recs {
		if err := enc.Encode(r); err != nil {
			return err
		}
	}
	if err := w.Flush(); err != nil {
		return err
	}
	return f.Close()
}

func writeJSON(path string, v any) error {
	b, err := json.MarshalIndent(v, "", " ")
	if err != nil {
		return err
	}
	return os.WriteFile(path, b, 0o644)
}

func sampleOf(recs []any, n int) []any {
	if len(recs) <= n {
		return recs
	}
	out := []any{}
	step := len(recs) / n
	for i := 0; i < n; i++ {
		out = append(out, recs[i*step])
	}
	return out
}

func main() {
	var c Ctx
	flag.StringVar(&c.Bin, "bin", "", "path of the crd binary under test")
	flag.Int64Var(&c.Seed, "seed", 1, "seed")
	flag.StringVar(&c.Tier, "tier", "quick", "quick|thorough")
	flag.StringVar(&c.Out, "out", "", "output directory")
	flag.IntVar(&c.Workers, "workers", runtime.NumCPU(), "parallel process runs")
	flag.StringVar(&c.Replay, "replay", "", "replay file (a failing record); run only its case")
	flag.StringVar(&c.Repo, "repo", "/repo", "repository root")
	flag.StringVar(&c.Aux, "aux", "", "auxiliary input file")
	flag.Parse()
	if flag.NArg() != 1 {
		names := []string{}
		for k := range drivers {
			names = append(names, k)
		}
		sort.Strings(names)
		fmt.Fprintln(os.Stderr, "usage: vdrive [flags] <driver>; drivers:", names)
		os.Exit(2)
	}
	d, ok := drivers[flag.Arg(0)]
	if !ok {
		fmt.Fprintln(os.Stderr, "unknown driver", flag.Arg(0))
		os.Exit(2)
	}
	if err := os.MkdirAll(c.Out, 0o755); err != nil {
		fmt.Fprintln(os.Stderr, err)
		os.Exit(2)
	}
	m, err := d(&c)
	if err != nil {
		fmt.Fprintln(os.Stderr, "driver error:", err)
		os.Exit(2)
	}
	if err := writeJSON(filepath.Join(c.Out, "meta.json"), m); err != nil {
		fmt.Fprintln(os.Stderr, err)
		os.Exit(2)
	}
}
