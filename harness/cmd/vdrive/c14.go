package main

import (
	"fmt"
	"math/rand"
	"strings"
)

func chainsUpTo(n int) []string {
	out := []string{}
	cur := []string{""}
	for i := 0; i < n; i++ {
		next := []string{}
		for _, p := range cur {
			for _, c := range "prds" {
				next = append(next, p+string(c))
			}
		}
		out = append(out, next...)
		cur = next
	}
	return out
}

func init() {
	register("c14", Def{
		Debug: true,
		Rule: "quick: 28 keys x every chain over {p,r,d,s} of length 1..3 (2,352) + 300 seeded chains of length 4..40; thorough: all chains of length 1..6 " +
			"(152,880, the property's exhaustive domain) + 3,000 seeded chains up to length 60; each through `crd info key conv`; distinct = distinct (key, chain)",
		Exhaustive: true,
		Gen: func(c *Ctx) []Case {
			maxLen, nrand, maxRand := 3, 300, 40
			if !c.quick() {
				maxLen, nrand, maxRand = 6, 3000, 60
			}
			cases := []Case{}
			for _, k := range supportedKeys {
				for _, ch := range chainsUpTo(maxLen) {
					cases = append(cases, Case{"key": k, "chain": ch})
				}
			}
			rng := rand.New(rand.NewSource(c.Seed))
			// long runs of fifth steps (a full turn and more), with the direction flipping inside the run
			for _, k := range supportedKeys {
				for _, ch := range []string{"dddddddddddd", "ssssssssssss", "ddddddddddds", "dddddddddddsd", "sssssssssssd", "ddddddssssssdddddddddddd", "pdddddddddddddr", "dddddddddddddddddddddddd"} {
					cases = append(cases, Case{"key": k, "chain": ch})
				}
			}
			// chains longer than any line or token buffer (run-length encoded for the spec; one argument cannot exceed 128 KiB)
			for i, rr := range [][][]any{{{"d", 65536}}, {{"d", 65537}}, {{"s", 70001}}, {{"p", 65535}, {"d", 3}}, {{"d", 4099}, {"r", 1}, {"s", 4099}}, {{"r", 130001}},
				{{"d", 32768}, {"p", 1}, {"d", 32768}}, {{"s", 60000}, {"p", 60001}}, {{"d", 1023}}, {{"d", 1025}, {"r", 1}}} {
				cases = append(cases, Case{"key": supportedKeys[(i*5)%28], "runs": rr}, Case{"key": supportedKeys[(i*11+3)%28], "runs": rr})
			}
			for _, k := range supportedKeys { // exactly at the 2^16 boundary, from every key (every target, one- and two-spelling)
				for _, n := range []int{65535, 65536, 65537} {
					if c.quick() && n != 65536 {
						continue
					}
					cases = append(cases, Case{"key": k, "runs": [][]any{{"d", n}}})
				}
			}
			for i := 0; i < nrand; i++ {
				n := maxLen + 1 + rng.Intn(maxRand-maxLen)
				var sb strings.Builder
				for j := 0; j < n; j++ {
					sb.WriteByte("prds"[rng.Intn(4)])
				}
				cases = append(cases, Case{"key": supportedKeys[rng.Intn(len(supportedKeys))], "chain": sb.String()})
			}
			return cases
		},
		Exec: func(c *Ctx, k Case) []Rec {
			if k["runs"] != nil {
				var runs [][]any
				remarshal(k["runs"], &runs)
				var sb strings.Builder
				for _, rn := range runs {
					n, _ := rn[1].(float64)
					sb.WriteString(strings.Repeat(rn[0].(string), int(n)))
				}
				r := c.crd([]string{"info", "key", "conv", "--key", cs(k, "key"), "-c", sb.String()}, nil)
				out := [][]int{}
				for _, ln := range strings.Split(strings.TrimRight(string(r.Stdout), "\n"), "\n") {
					if ln != "" {
						out = append(out, chars(ln))
					}
				}
				return []Rec{{"kind": "longchain", "sub": fmt.Sprint(cs(k, "key"), k["runs"]), "key": chars(cs(k, "key")), "runs": runs, "terminated": !r.TimedOut,
					"ok": r.Exit == 0 && len(r.Stdout) > 0 && !r.Panic, "out": out, "stdoutLen": len(r.Stdout), "stderrLen": len(r.Stderr)}}
			}
			args := []string{"info", "key", "conv", "--key", cs(k, "key"), "-c", cs(k, "chain")}
			r := c.crd(args, nil)
			chain := []string{}
			for _, x := range cs(k, "chain") {
				chain = append(chain, string(x))
			}
			out := [][]int{}
			for _, ln := range strings.Split(strings.TrimRight(string(r.Stdout), "\n"), "\n") {
				if ln != "" {
					out = append(out, chars(ln))
				}
			}
			return []Rec{{"kind": "chain", "key": chars(cs(k, "key")), "chain": chain, "terminated": !r.TimedOut,
				"ok": len(r.Stdout) > 0 && !r.Panic, "out": out, "stdoutLen": len(r.Stdout), "stderrLen": len(r.Stderr)}}
		},
	})
}
