package main

import (
	"bytes"
	"math/rand"
	"reflect"
	"strings"

	"verif/harness/internal/smf"
)

func init() {
	register("c05", Def{
		Debug: true,
		Rule: "seeded abstract progressions (degree 1..7 with none/#/b, symbols, slash bass, rests, several fractions, metadata, {key=K} changes anywhere incl. on rests) rendered as one degree text " +
			"and one note-name text per start key (all keys in which every note is spellable; quick: up to 6 keys, thorough: all 28); the spec first re-derives that the renderings denote the same " +
			"progression; real `text conv degree` / `text conv syllable --key K` must agree. Plus exhaustive single chords: 28 keys x 21 degrees (1..7 x none/#/b: what note names can express). distinct = distinct progressions",
		Gen: func(c *Ctx) []Case {
			rng := rand.New(rand.NewSource(c.Seed))
			n, maxKeys := 250, 6
			if !c.quick() {
				n, maxKeys = 3000, 28
			}
			cases := []Case{}
			// exhaustive single chords: every degree the text notation expresses (1..15 x none/#/b), every key
			for nn := 1; nn <= 7; nn++ { // note names express simple intervals only
				for _, a := range []int{0, 1, -1} {
					cases = append(cases, Case{"prog": []PItem{{N: nn, Acc: a, Sym: "m7", Vals: one()}}, "maxKeys": 28, "seed": 0})
				}
			}
			for i := 0; i < n; i++ {
				maxLen := 8
				if i%25 == 24 {
					maxLen = 400 // long pieces: the key is carried through hundreds of chords, several modulations
				}
				cases = append(cases, Case{"prog": randomProg(rng, maxLen, 0.25, 7), "maxKeys": maxKeys, "seed": rng.Int63()})
			}
			// pieces that open with many rests (more AST nodes than the classifier's channel holds before the first chord)
			for _, nr := range []int{34, 40, 67} {
				p := []PItem{}
				for i := 0; i < nr; i++ {
					p = append(p, PItem{Rest: true, Vals: one()})
				}
				p = append(p, randomProg(rng, 6, 0.2, 7)...)
				cases = append(cases, Case{"prog": p, "maxKeys": 3, "seed": rng.Int63()})
			}
			// note-name texts written directly, from a small pool of spellings that recur before and after key changes
			ns := 80
			if !c.quick() {
				ns = 1500
			}
			families := []struct {
				keys  []string
				notes []string
			}{{[]string{"C", "Am", "G", "Em"}, []string{"C", "D", "E", "G", "A", "B"}}, {[]string{"C", "F", "Dm", "Am"}, []string{"C", "D", "E", "F", "G", "A"}},
				{[]string{"Eb", "Cm", "Bb", "Gm"}, []string{"Eb", "F", "G", "Bb", "C", "D"}}}
			for i := 0; i < ns; i++ {
				fam := families[rng.Intn(len(families))]
				var sb strings.Builder
				n := 4 + rng.Intn(14)
				for j := 0; j < n; j++ {
					if rng.Intn(6) == 0 {
						sb.WriteString("R[1]")
					} else {
						sb.WriteString(fam.notes[rng.Intn(len(fam.notes))] + []string{"", "", "m", "_7", "maj7"}[rng.Intn(5)])
						if rng.Intn(4) == 0 {
							sb.WriteString("/" + fam.notes[rng.Intn(len(fam.notes))])
						}
						sb.WriteString("[1]")
					}
					if j > 0 && rng.Intn(4) == 0 {
						sb.WriteString("{key=" + fam.keys[rng.Intn(len(fam.keys))] + "}")
					}
					sb.WriteString(" ")
				}
				cases = append(cases, Case{"syltext": sb.String(), "key": fam.keys[rng.Intn(len(fam.keys))]})
			}
			// key histories, systematically: every sequence of up to H key announcements over a pool of three keys (the first is
			// also the --key of half the runs), each carried by a chord or by a rest and followed by two plain chords on notes of
			// the announced key (the fifth and the tonic): leaving a key, coming back, alternating, restating
			hmax := 4
			if !c.quick() {
				hmax = 5
			}
			pools := [][]string{{"G", "Eb", "C"}, {"F#m", "A", "Bbm"}}
			if !c.quick() {
				pools = append(pools, []string{supportedKeys[rng.Intn(28)], supportedKeys[rng.Intn(28)], supportedKeys[rng.Intn(28)]})
			}
			for pi, pool := range pools {
				var hist func(h []int)
				hist = func(h []int) {
					if len(h) > 0 {
						var sb strings.Builder
						t0, _ := parseKeyName(pool[0])
						if len(h)%2 == 0 { // (odd histories: the very first instance carries the first announcement, next to --key)
							sb.WriteString(t0.String() + "[1] ")
						}
						for j, ki := range h {
							tn, minor := parseKeyName(pool[ki])
							fifth, _ := spellAbove(tn, 5, 0)
							q := ""
							if minor {
								q = "m"
							}
							// the announcement travels alone or next to other settings of the same instance, in either order
							kv := "key=" + pool[ki]
							switch (j*7 + len(h)*3 + ki + pi) % 6 {
							case 1:
								kv = "mtr=3/4," + kv
							case 2:
								kv = kv + ",bpm=90"
							case 3:
								kv = "vel=ff," + kv + ",mtr=6/8"
							case 4:
								kv = "txt=x y," + kv
							}
							if (j+len(h)+pi)%3 == 0 {
								sb.WriteString("R[1]{" + kv + "} ")
							} else {
								sb.WriteString(tn.String() + q + "[1]{" + kv + "} ")
							}
							sb.WriteString(fifth.String() + "[1] " + tn.String() + q + "[1] ")
						}
						flag := ""
						if (len(h)+h[0])%2 == 0 {
							flag = pool[0]
						} else {
							sb.Reset() // without --key the piece starts in C
							sb.WriteString("C[1] ")
							for _, ki := range h {
								tn, minor := parseKeyName(pool[ki])
								third, ok := spellAbove(tn, 3, map[bool]int{true: -1, false: 0}[minor])
								if !ok {
									third = tn
								}
								sb.WriteString(tn.String() + "[1]{key=" + pool[ki] + "} " + third.String() + "[1] ")
							}
						}
						cases = append(cases, Case{"syltext": sb.String(), "key": flag})
					}
					if len(h) < hmax {
						for k := 0; k < 3; k++ {
							hist(append(append([]int{}, h...), k))
						}
					}
				}
				hist(nil)
			}
			// "concatenation twins" in one key section: chord texts that read alike once separators are dropped or that differ in
			// one sign only (A_b9 / Ab_9, C_#5 / C#_5, D♯ / D♭ / D# / Db, 1_7 / 17): each keeps its own meaning
			for ti, tw := range []struct{ key, text string }{
				{"C", "C[1] A_b9[1] Dm7[1] Ab_9[1] G_7[1] C[1] C_#5[1] C#_5[1]"},
				{"F", "F[1] Bb_7[1] B_b7[1] Bb_b7[1] B_7[1] F[1]"},
				{"C", "C[1] D♯dim[1] D♭[1] D#dim[1] Db[1] D♯dim[1] E♭[1] G♯[1] Eb[1] G#[1]"},
				{"C", "C[1] F♯m[1] G♭[1] F#m[1] Gb[1] A♯[1] A♭[1] A♯/D♭[1] A♭/D♯[1]"},
				{"", "C[1] E♭[1] E♯[1] A♭/E♭[1] A♯/E♯[1] Ab/Eb[1]"},
			} {
				cases = append(cases, Case{"syltext": tw.text, "key": tw.key})
				_ = ti
			}
			for _, t := range []string{"1_7[1] 17[1] 1_6[1] 16[1] 1_9[1] 19[1] 2_7[1] 27[1] 1_7[1]", "1b_9[1] 1_b9[1] 1#_5[1] 1_#5[1] 1b_9[1]", "1/3[1] 13[1] 1_3[1] 1/3b[1] 1_3b[1]",
				"3♭[1] 3♯[1] 3b[1] 3#[1] 3♭m/5♯[1]"} {
				cases = append(cases, Case{"syltext": t, "key": "", "mode": "degree"})
			}
			// long key histories: hundreds of announcements over many distinct keys, with a root that is written once at the start
			// and again only after exactly 255 / 256 / 257 / 512 announcements, and returns to keys left long ago (whatever a
			// converter remembers per key, per root or per generation must still be right then)
			for hi, nAnn := range []int{255, 256, 257, 512, 40} {
				if c.quick() && hi == 3 {
					continue
				}
				ring := []string{"C", "G", "D", "A", "E", "B", "F#", "C#", "F", "Bb", "Eb", "Ab", "Db", "Gb", "Cb", "Am", "Em", "Bm", "F#m", "C#m", "G#m", "D#m", "Dm", "Gm", "Cm", "Fm", "Bbm", "Ebm"}
				if hi%2 == 1 {
					ring = []string{"G", "D"} // two keys alternating
				}
				var sb strings.Builder
				sb.WriteString("E[1] ")
				for a := 0; a < nAnn; a++ {
					k := ring[a%len(ring)]
					if a == nAnn-1 {
						k = "D" // (E belongs to D: the last chord of the history is always convertible)
					}
					tn, minor := parseKeyName(k)
					q := ""
					if minor {
						q = "m"
					}
					sb.WriteString(tn.String() + q + "[1]{key=" + k + "} ")
				}
				sb.WriteString("E[1] C[1]{key=C} E[1] G[1]{key=G} E[1]")
				cases = append(cases, Case{"syltext": sb.String(), "key": "C"})
			}
			// long pieces made of one section repeated: a section opens with an explicit key and modulates inside, so every
			// repetition converts alike -- if the key in force is carried across the whole piece (whatever batch or buffer
			// boundaries a converter has: 7-chord sections fall differently on every multiple of 1024)
			for i, sec := range []struct{ key, text string }{
				{"C", "D[1]{key=D} F#m[1] G[1] A_7[1] B[1]{key=B} E[1] F#_7[1]"},
				{"", "Eb[1]{key=Eb} Ab[1] R[1] Bb_7[1] Cm[1]{key=Cm} G[1] Fm/Ab[1,1/2]"},
				{"F#m", "A[1]{key=A} D[1] E[1] R[1]{key=Gm} Gm[1] Cm[1] D_7[1]"},
				{"C", "G[1]{key=G} D[1]{key=D} A[1]{key=A} E[1]{key=E} B[1]{key=B}"}, // every instance announces: whatever falls on a boundary does too
			} {
				reps := 2400 // 16 800 instances: beyond 2^14
				if !c.quick() {
					reps = 10000 // 70 000: beyond 2^16
				}
				if c.quick() && i == 2 {
					continue
				}
				if i == 3 {
					reps = reps * 7 / 5
				}
				cases = append(cases, Case{"section": sec.text, "key": sec.key, "reps": reps})
			}
			// the same with lengths just above 2^14 that are no multiples of a worker count: wherever a converter cuts such a piece
			// into blocks, some cut falls right behind an announcement
			for _, reps := range []int{3277, 3278, 3279, 3280, 3281} {
				cases = append(cases, Case{"section": "G[1]{key=G} D[1] A[1]{key=A} E[1] D[1]", "key": "C", "reps": reps, "procs": "4"},
					Case{"section": "G[1]{key=G} D[1] A[1]{key=A} E[1] D[1]", "key": "", "reps": reps + 1640, "procs": "8"})
			}
			return cases
		},
		Exec: func(c *Ctx, k Case) []Rec {
			if sec := cs(k, "section"); sec != "" {
				one, _ := convRec(c, "syllable", cs(k, "key"), sec+"\n")
				whole := c.crdEnv(append([]string{"text", "conv", "syllable"}, keyArgs(cs(k, "key"))...), []byte(strings.Repeat(sec+"\n", ci(k, "reps"))),
					[]string{"GOMAXPROCS=" + map[bool]string{true: cs(k, "procs"), false: []string{"4", "16", "2"}[len(sec)%3]}[cs(k, "procs") != ""]}, 300e9)
				out, ok := projectInstances(whole.Stdout)
				blocks := ok && whole.Exit == 0
				n1 := 0
				if o1, _ := one["out"].([]Rec); len(o1) > 0 {
					n1 = len(o1)
					for i := range out {
						if blocks && !reflect.DeepEqual(out[i], o1[i%n1]) {
							blocks = false
						}
					}
				}
				return []Rec{{"kind": "sections", "sub": "sections", "x": one, "reps": ci(k, "reps"), "wholeOk": ok && whole.Exit == 0, "n": len(out), "blocksEqual": blocks,
					"terminated": !whole.TimedOut}}
			}
			if t := cs(k, "syltext"); t != "" {
				mode := "syllable"
				if cs(k, "mode") != "" {
					mode = cs(k, "mode")
				}
				r, _ := convRec(c, mode, cs(k, "key"), t+"\n")
				return []Rec{{"kind": "syl", "sub": "syl", "x": r}}
			}
			var p []PItem
			remarshal(k["prog"], &p)
			rng := rand.New(rand.NewSource(int64(ci(k, "seed"))))
			dtext := degreeText(p, rng)
			drec, dout := convRec(c, "degree", "", dtext)
			keys := append([]string{}, supportedKeys...)
			rng.Shuffle(len(keys), func(a, b int) { keys[a], keys[b] = keys[b], keys[a] })
			syl := []Rec{}
			for _, key := range keys {
				if len(syl) >= ci(k, "maxKeys") {
					break
				}
				t, ok := syllableText(p, key, rng)
				if !ok {
					continue
				}
				r, out := convRec(c, "syllable", key, t)
				r["outBytesEqualDegree"] = bytes.Equal(out, dout)
				syl = append(syl, r)
			}
			recs := []Rec{{"kind": "prog", "deg": drec, "syl": syl}}
			// second half of the property: the same instances played in two keys differ by the distance of the tonics only
			hasKeyMeta := false
			for _, it := range p {
				for _, m := range it.Meta {
					if m[0] == "key" {
						hasKeyMeta = true
					}
				}
			}
			if drec["ok"] == true && !hasKeyMeta {
				k1, k2 := keys[0], keys[1]
				r1 := c.crd([]string{"write", "--key", k1}, dout)
				r2 := c.crd([]string{"write", "--key", k2}, dout)
				f1, f2 := smf.Parse(r1.Stdout), smf.Parse(r2.Stdout)
				recs = append(recs, Rec{"kind": "transpose", "k1": chars(k1), "k2": chars(k2),
					"ok1": r1.Exit == 0 && f1.Err == "" && len(r1.Stdout) > 0, "ok2": r2.Exit == 0 && f2.Err == "" && len(r2.Stdout) > 0,
					"ev1": eventsOf(f1), "ev2": eventsOf(f2)})
			}
			return recs
		},
		Extra: func(recs []Rec) map[string]any {
			conv, refused := 0, 0
			for _, r := range recs {
				if r["kind"] != "prog" {
					continue
				}
				for _, s := range r["syl"].([]Rec) {
					if s["ok"] == true {
						conv++
					} else {
						refused++
					}
				}
			}
			return map[string]any{"syllable_conversions": conv, "syllable_refused": refused}
		},
	})
}

func keyArgs(k string) []string {
	if k == "" {
		return nil
	}
	return []string{"--key", k}
}
