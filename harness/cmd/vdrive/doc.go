package main

import (
	"bytes"
	"fmt"
	"hash/fnv"
	"math/rand"
	"strings"
	"sync"

	"verif/harness/internal/smf"

	"gopkg.in/yaml.v3"
)

// Frac is a duration fraction as written.
type Frac struct{ N, D int }

func (f Frac) String() string {
	if f.D == 1 {
		return fmt.Sprint(f.N)
	}
	return fmt.Sprintf("%d/%d", f.N, f.D)
}

// Inst is one abstract instance of an instances document (what the driver *means*; the spec
// receives exactly this and the real binary receives its YAML rendering).
type Inst struct {
	Rest  bool
	Deg   string // YAML interval notation, e.g. "b3"
	Base  string // "" = none
	Sym   string // name or display
	Vals  []Frac
	BPM   int    // 0 = absent
	Meter *Frac  // nil = absent
	Vel   string // "" = absent
	Key   string // "" = absent
	Txt   string
	Lic   string
	Mrk   string
	// Pad spells the numerals of this instance's values, meter and bpm with that many leading zeros in the YAML (the same
	// numbers: decimal numerals do not change value with leading zeros); Pad < 0 writes the bpm as a quoted string
	Pad int `json:",omitempty"`
	// MetaDecoy adds free metadata whose names are those of settings (meta: {key: F#, bpm: "77", vel: pp, mtr: 7/8}): in an
	// instances document the settings are the fields of the instance, a free entry called "key" is just a text nobody reads
	MetaDecoy bool `json:",omitempty"`
	// Style (on the first instance) forces a YAML style of restyleYAML (4..7) for the whole document
	Style int `json:",omitempty"`
}

type Doc []Inst

// Flags are the `crd write` overrides ("" / 0 = not given).
type Flags struct {
	BPM   int
	Meter string
	Vel   string
	Key   string
}

func (f Flags) Args() []string {
	a := []string{}
	if f.BPM != 0 {
		a = append(a, "--bpm", fmt.Sprint(f.BPM))
	}
	if f.Meter != "" {
		a = append(a, "--meter", f.Meter)
	}
	if f.Vel != "" {
		a = append(a, "--velocity", f.Vel)
	}
	if f.Key != "" {
		a = append(a, "--key", f.Key)
	}
	return a
}

func (f Flags) Abstract() Rec {
	m := []int{}
	if f.Meter != "" {
		var n, d int
		if _, err := fmt.Sscanf(f.Meter, "%d/%d", &n, &d); err == nil {
			m = []int{n, d}
		}
	}
	return Rec{"bpm": f.BPM, "meter": m, "vel": f.Vel, "key": chars(f.Key)}
}

// YAML renders the document the way a user would write it (yaml.v3 does the quoting).
func (d Doc) YAML() []byte {
	list := []map[string]any{}
	for _, in := range d {
		m := map[string]any{}
		if !in.Rest {
			ch := map[string]any{"degree": in.Deg, "name": in.Sym}
			if in.Base != "" {
				ch["base"] = in.Base
			}
			m["chord"] = ch
		}
		z := ""
		if in.Pad > 0 {
			z = strings.Repeat("0", in.Pad)
		}
		vs := []string{}
		for _, v := range in.Vals {
			if z != "" {
				vs = append(vs, z+strings.Replace(v.String(), "/", "/"+z, 1))
			} else {
				vs = append(vs, v.String())
			}
		}
		m["values"] = vs
		if in.BPM != 0 {
			switch {
			case in.Pad > 0:
				m["bpm"] = &yaml.Node{Kind: yaml.ScalarNode, Tag: "!!int", Value: z + fmt.Sprint(in.BPM)}
			case in.Pad < 0:
				m["bpm"] = fmt.Sprint(in.BPM)
			default:
				m["bpm"] = in.BPM
			}
		}
		if in.Meter != nil {
			m["meter"] = fmt.Sprintf("%s%d/%s%d", z, in.Meter.N, z, in.Meter.D)
		}
		if in.Vel != "" {
			m["velocity"] = in.Vel
		}
		if in.Key != "" {
			m["key"] = in.Key
		}
		meta := map[string]string{}
		if in.Txt != "" {
			meta["txt"] = in.Txt
		}
		if in.Lic != "" {
			meta["lic"] = in.Lic
		}
		if in.Mrk != "" {
			meta["mrk"] = in.Mrk
		}
		if in.MetaDecoy {
			meta["key"], meta["bpm"], meta["vel"], meta["mtr"] = "F#", "77", "pp", "7/8"
		}
		if len(meta) > 0 {
			m["meta"] = meta
		}
		list = append(list, m)
	}
	b, err := yaml.Marshal(list)
	if err != nil {
		panic(err)
	}
	force := 0
	if len(d) > 0 {
		force = d[0].Style
	}
	return restyleYAML(b, list, force)
}

// restyleYAML re-writes a document in another YAML style that denotes the same data, chosen by a hash of the document:
// flow mappings, CRLF line ends with a document marker and comments, keys in reverse order, anchors and aliases for repeated duration lists. Half of the documents keep the library's default style.
func restyleYAML(b []byte, data any, force int) []byte {
	h := fnv.New32a()
	h.Write(b)
	sel := mix32(h.Sum32()) % 8
	if force >= 4 && force <= 7 {
		sel = uint32(force)
	}
	if sel < 4 {
		return b
	}
	// the node tree is built from the data itself, not by reading the default rendering back (the library loses a text
	// made of line breaks only on that round trip)
	var root yaml.Node
	if root.Encode(data) != nil || root.Kind != yaml.SequenceNode {
		return b
	}
	doc := yaml.Node{Kind: yaml.DocumentNode, Content: []*yaml.Node{&root}}
	seq := &root
	switch sel {
	case 4:
		for _, it := range seq.Content {
			it.Style = yaml.FlowStyle
		}
	case 5:
		for i, it := range seq.Content {
			it.HeadComment = fmt.Sprintf("instance %d: [not, a, list] {nor: a map}", i+1)
		}
	case 6:
		for _, it := range seq.Content {
			if it.Kind != yaml.MappingNode {
				continue
			}
			rev := []*yaml.Node{}
			for j := len(it.Content) - 2; j >= 0; j -= 2 {
				k, v := it.Content[j], it.Content[j+1]

				rev = append(rev, k, v)
			}
			it.Content = rev
		}
	case 7:
		// an instance that repeats an earlier one word for word is written as an alias of it (- *i1)
		whole := map[string]*yaml.Node{}
		wn := 0
		for idx, it := range seq.Content {
			if it.Kind != yaml.MappingNode {
				continue
			}
			b, _ := yaml.Marshal(it)
			if first, ok := whole[string(b)]; ok {
				if first.Anchor == "" {
					wn++
					first.Anchor = fmt.Sprintf("i%d", wn)
				}
				seq.Content[idx] = &yaml.Node{Kind: yaml.AliasNode, Alias: first, Value: first.Anchor}
			} else {
				whole[string(b)] = it
			}
		}
		seen := map[string]*yaml.Node{}
		n := 0
		for _, it := range seq.Content {
			if it.Kind != yaml.MappingNode {
				continue
			}
			for j := 0; j+1 < len(it.Content); j += 2 {
				if it.Content[j].Value != "values" {
					continue
				}
				v := it.Content[j+1]
				key := ""
				for _, x := range v.Content {
					key += x.Value + ","
				}
				if first, ok := seen[key]; ok {
					if first.Anchor == "" {
						n++
						first.Anchor = fmt.Sprintf("v%d", n)
					}
					it.Content[j+1] = &yaml.Node{Kind: yaml.AliasNode, Alias: first, Value: first.Anchor}
				} else {
					seen[key] = v
				}
			}
		}
	}
	// texts with line breaks are written double-quoted (the library's block scalars do not survive this round trip for
	// texts made of line breaks only, and CRLF line ends must not reach into a text)
	var quote func(n *yaml.Node)
	quote = func(n *yaml.Node) {
		if n.Kind == yaml.ScalarNode && strings.ContainsAny(n.Value, "\n\r") {
			n.Style = yaml.DoubleQuotedStyle
		}
		for _, c := range n.Content {
			quote(c)
		}
	}
	quote(&doc)
	var buf bytes.Buffer
	enc := yaml.NewEncoder(&buf)
	enc.SetIndent(2 + int(sel)%3)
	if enc.Encode(&doc) != nil {
		return b
	}
	enc.Close()
	out := buf.Bytes()
	if sel == 5 {
		out = append([]byte("---\r\n"), bytes.ReplaceAll(out, []byte("\n"), []byte("\r\n"))...)
	}
	return out
}

// Abstract is the form handed to TLC: notations as code-point sequences, texts as UTF-8 byte sequences.
func (d Doc) Abstract() []Rec {
	out := []Rec{}
	for _, in := range d {
		vals := [][]int{}
		for _, v := range in.Vals {
			vals = append(vals, []int{v.N, v.D})
		}
		meter := []int{}
		if in.Meter != nil {
			meter = []int{in.Meter.N, in.Meter.D}
		}
		out = append(out, Rec{"rest": in.Rest, "deg": chars(in.Deg), "base": chars(in.Base), "sym": displayOf(in.Sym), "vals": vals,
			"bpm": in.BPM, "meter": meter, "vel": in.Vel, "key": chars(in.Key),
			"txt": bytesOf([]byte(in.Txt)), "lic": bytesOf([]byte(in.Lic)), "mrk": bytesOf([]byte(in.Mrk))})
	}
	return out
}

// docCase / caseDoc: JSON round trip of a document inside a Case
func docToCase(d Doc) any { return d }

func caseToDoc(v any) Doc {
	var d Doc
	remarshal(v, &d)
	return d
}

func caseToFlags(v any) Flags {
	var f Flags
	remarshal(v, &f)
	return f
}

// eventsOf projects decoded events into the tuple form SMF.tla produces:
// <<trk, tick, delta, kind, ch, a, b, payload>>
func eventsOf(f smf.File) [][]any {
	out := [][]any{}
	for _, e := range f.Events {
		d := e.Data
		if d == nil {
			d = []int{}
		}
		out = append(out, []any{e.Track, e.Tick, e.Delta, e.Kind, e.Ch, e.A, e.B, d})
	}
	return out
}

// ---------------------------------------------------------------- generation

var dynamics = []string{"pp", "p", "mp", "mf", "f", "ff"}

// The long names of the chords whose symbols the statements list.  No statement fixes them ("a chord's long name and its
// display symbol are interchangeable"), so they are read off the binary under test (`info chord list`); the names of the
// pinned tree are only the fallback when that listing cannot be had.  The abstract document handed to TLC carries the symbol.
var longChordNames = []string{"MajorTriad", "MinorTriad", "DiminishedTriad", "AugmentedTriad", "DominantSeventh", "MajorSeventh",
	"MajorSeventhAlias1", "MinorSeventh", "MinorMajorSeventh", "HalfDiminishedSeventh", "DiminishedSeventh", "AugmentedMajorSeventh",
	"DominantNinth", "MinorMajorNinth", "MinorNinth", "MajorNinth", "MajorNinthAlias1", "SuspendedFourth", "SeventhSuspendedFourth",
	"Sixth", "MinorSixth", "AddedNinth", "SuspendSecond"}

var (
	longToDisplay = map[string]string{}
	longOnce      sync.Once
)

func initLongNames(c *Ctx) {
	longOnce.Do(func() {
		list, ok := builtinChordList(c)
		if !ok {
			return // the fallback list; Piece.tla knows the pinned names
		}
		names := []string{}
		for _, b := range list {
			if conventional[b.Meta.Display] && b.Name != "" && b.Name != b.Meta.Display && !conventional[b.Name] {
				longToDisplay[b.Name] = b.Meta.Display
				names = append(names, b.Name)
			}
		}
		if len(names) > 0 {
			longChordNames = names
		}
	})
}

// displayOf: the symbol a long name stands for (itself when it is a symbol)
func displayOf(sym string) string {
	if d, ok := longToDisplay[sym]; ok {
		return d
	}
	return sym
}

// longNameOf: a long name of the symbol (the symbol itself if crd lists none)
func longNameOf(display string) string {
	for _, n := range longChordNames {
		if longToDisplay[n] == display {
			return n
		}
	}
	return display
}

// GenOpt steers randomDoc.
type GenOpt struct {
	MaxLen     int
	RestP      float64
	KeyP       float64 // probability that an instance carries a key
	SettingP   float64 // bpm / meter / velocity each
	TextP      float64
	Fractions  bool // false: every value is "1"
	MaxDeg     int
	AllMarks   bool
	BassP      float64
	Syms       []string
	Texts      []string
	MultiVals  bool
	FirstChord bool // first instance is a chord
	BigVals    bool // include very long durations (tracks idle for > 65536 ticks; totals stay far below 2^28)
}

var bigFracPool = []Frac{{70, 1}, {137, 1}, {1000, 3}, {69, 1}, {300, 7}, {2049, 2}}

var fracPool = []Frac{{1, 1}, {2, 1}, {1, 2}, {1, 3}, {2, 3}, {3, 7}, {5, 4}, {1, 4}, {3, 4}, {1, 8}, {7, 8}, {1, 6}, {5, 6}, {1, 16}, {3, 16},
	{1, 5}, {4, 5}, {1, 9}, {1, 12}, {1, 32}, {1, 64}, {7, 960}, {3, 1}, {4, 1}, {1, 7}, {9, 8}, {11, 12}, {13, 64}}

func randomInterval(rng *rand.Rand, maxN int, allMarks bool) string {
	n := 1 + rng.Intn(maxN)
	marks := []string{"", "", "", "b", "#"}
	if allMarks {
		marks = []string{"", "", "b", "#", "bb", "##", "bbb"}
	}
	m := marks[rng.Intn(len(marks))]
	if (n == 1 && strings.HasPrefix(m, "b")) || (n == 2 && m == "bbb") {
		m = "" // (an interval below the unison: whether it exists is left open by the statements)
	}
	return m + fmt.Sprint(n)
}

func randomDoc(rng *rand.Rand, o GenOpt) Doc {
	n := 1 + rng.Intn(o.MaxLen)
	d := Doc{}
	for i := 0; i < n; i++ {
		in := Inst{}
		in.Rest = rng.Float64() < o.RestP
		if i == 0 && o.FirstChord {
			in.Rest = false
		}
		if !in.Rest {
			in.Deg = randomInterval(rng, o.MaxDeg, o.AllMarks)
			in.Sym = o.Syms[rng.Intn(len(o.Syms))]
			if rng.Float64() < o.BassP {
				in.Base = randomInterval(rng, o.MaxDeg, o.AllMarks)
			}
		}
		if o.Fractions {
			k := 1
			if o.MultiVals && rng.Intn(3) == 0 {
				k = 2 + rng.Intn(2)
			}
			for j := 0; j < k; j++ {
				if o.BigVals && rng.Intn(6) == 0 {
					in.Vals = append(in.Vals, bigFracPool[rng.Intn(len(bigFracPool))])
					continue
				}
				in.Vals = append(in.Vals, fracPool[rng.Intn(len(fracPool))])
			}
		} else {
			in.Vals = []Frac{{1, 1}}
		}
		if rng.Float64() < o.KeyP {
			in.Key = supportedKeys[rng.Intn(len(supportedKeys))]
		}
		if rng.Float64() < o.SettingP {
			in.BPM = []int{4, 30, 60, 100, 120, 121, 137, 180, 240, 999, 60000, 7, 13, 59999999}[rng.Intn(14)]
			if rng.Intn(3) == 0 {
				in.BPM = 4 + rng.Intn(2000)
			}
		}
		if rng.Float64() < o.SettingP {
			in.Meter = &Frac{1 + rng.Intn(16), []int{1, 2, 4, 8, 16, 32, 64, 128}[rng.Intn(8)]}
			if rng.Intn(8) == 0 {
				in.Meter.N = 1 + rng.Intn(255)
			}
		}
		if rng.Float64() < o.SettingP {
			in.Vel = dynamics[rng.Intn(len(dynamics))]
		}
		if len(o.Texts) > 0 {
			if rng.Float64() < o.TextP {
				in.Txt = o.Texts[rng.Intn(len(o.Texts))]
			}
			if rng.Float64() < o.TextP/2 {
				in.Lic = o.Texts[rng.Intn(len(o.Texts))]
			}
			if rng.Float64() < o.TextP/2 {
				in.Mrk = o.Texts[rng.Intn(len(o.Texts))]
			}
		}
		// (leading zeros on YAML numerals, a quoted bpm and free metadata named like settings were drawn here for a while;
		// no property says how an instances document spells its numbers, so they are no longer: DESIGN 10.5)
		_ = rng.Intn(16)
		_ = rng.Intn(16)
		d = append(d, in)
	}
	return d
}

func randomFlags(rng *rand.Rand, p float64) Flags {
	f := Flags{}
	if rng.Float64() < p {
		f.BPM = 4 + rng.Intn(400)
	}
	if rng.Float64() < p {
		f.Meter = fmt.Sprintf("%d/%d", 1+rng.Intn(12), []int{2, 4, 8, 16}[rng.Intn(4)])
	}
	if rng.Float64() < p {
		f.Vel = dynamics[rng.Intn(len(dynamics))]
	}
	if rng.Float64() < p {
		f.Key = supportedKeys[rng.Intn(len(supportedKeys))]
	}
	return f
}

var sampleTexts = []string{"hello", "a b", "x", "été", "日本語", "α→β", "emoji 🎵 ok", "q\"uote", "back\\slash", "tab\there", "colon: yes", "- dash", "# hash",
	"'single'", "{brace}", "[1,2]", "long " + "0123456789abcdefghijklmnopqrstuvwxyz0123456789abcdefghijklmnopqrstuvwxyz0123456789abcdefghijklmnopqrstuvwxyz0123456789abcdefghijklmnopqrstuvwxyz", "null", "true", "1", " lead", "trail ", "ñ", "𝄞 clef", " ", "\u3000", "  \t ", "大好き", "Život", "the end\n\n\n", "first\r\nsecond", ";-) intro", "line1\nline2\n", "x\r"}
