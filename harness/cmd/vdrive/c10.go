package main

import (
	"bytes"
	"fmt"
	"math/rand"
	"strings"
	"time"

	"verif/harness/internal/smf"

	"gopkg.in/yaml.v3"
)

var dictDisplaySyms = []string{"", "", "m", "m7", "7", "maj7", "dim", "sus4", "9", "m7b5", "6", "aug", "add9", "mM7", "dim7", "augM7", "m9", "M9", "maj9", "mM9", "7sus4", "m6", "sus2", "M7"}

// yOpInstance: `crd write parse` / `write conv` output (the expanded instance), only the scalar fields
type yOpInstance struct {
	Chord *struct {
		Degree string  `yaml:"degree"`
		Base   *string `yaml:"base"`
	} `yaml:"chord"`
	Values   []string `yaml:"values"`
	BPM      *int     `yaml:"bpm"`
	Velocity *string  `yaml:"velocity"`
	Meter    *string  `yaml:"meter"`
	Key      *string  `yaml:"key"`
}

func init() {
	register("c10", Def{
		Debug: true,
		Rule: "pipe: seeded valid chord texts (degree and note-name notation, all expressible intervals 1..15 x none/#/b, dictionary symbols, slash chords, several fractions, every setting, metadata texts with " +
			"YAML-significant and non-ASCII characters, key changes) through the real `text conv | write`; scalar: every value of every scalar field (interval notations n<=64 x 6 marks as degree and as base, " +
			"28 keys, fractions and meters n,d<=16 and a seeded set up to 999, 6 dynamics, bpm) printed into a document and read back through `write parse`; cmt: seeded documents through " +
			"`write conv -c cmt | write` vs `write`. distinct = distinct texts / field domains / documents",
		Gen: func(c *Ctx) []Case {
			rng := rand.New(rand.NewSource(c.Seed))
			np, nc := 200, 60
			if !c.quick() {
				np, nc = 3000, 800
			}
			cases := []Case{}
			metaTexts := []string{"hello", "la la", "x", "A: b", "é♭ü", "1", "- dash", "# hash", "'q'", "\"dq\"", "a\\b", "[x]", "null", "true", "~", "日本語", "emoji 🎵", "tab\there", "colon:", "@at", "&amp", "*star", "!bang", "%pct", "|pipe", ">gt", "? q", "trail ",
				"the end\n\n\n", "first\r\nsecond", ";-) intro", "line1\nline2\n", ";", "a ;b", "x\r"}
			for i := 0; i < np; i++ {
				p := randomProg(rng, 8, 0.2, 15)
				for j := range p {
					if !p[j].Rest {
						p[j].Sym = dictDisplaySyms[rng.Intn(len(dictDisplaySyms))]
						if p[j].HasBass {
							p[j].BN = 1 + rng.Intn(15)
						}
					}
					for m := range p[j].Meta {
						if p[j].Meta[m][0] == "txt" || p[j].Meta[m][0] == "lic" || p[j].Meta[m][0] == "mrk" || p[j].Meta[m][0] == "foo" {
							p[j].Meta[m][1] = metaTexts[rng.Intn(len(metaTexts))]
						}
					}
				}
				mode, key := "degree", ""
				if i%2 == 1 {
					mode, key = "syllable", supportedKeys[rng.Intn(len(supportedKeys))]
					for j := range p { // note names: simple intervals only
						if p[j].N > 7 {
							p[j].N = 1 + (p[j].N-1)%7
						}
						if p[j].BN > 7 {
							p[j].BN = 1 + (p[j].BN-1)%7
						}
					}
				}
				cases = append(cases, Case{"cmd": "pipe", "prog": p, "mode": mode, "key": key, "seed": rng.Int63()})
			}
			// scalar domains
			ivs := allIntervalNotations(64)
			cases = append(cases, Case{"cmd": "scalar", "field": "degree", "vals": ivs}, Case{"cmd": "scalar", "field": "base", "vals": ivs})
			cases = append(cases, Case{"cmd": "scalar", "field": "key", "vals": supportedKeys})
			fr := []string{}
			for n := 1; n <= 16; n++ {
				for d := 1; d <= 16; d++ {
					if d == 1 && n%2 == 0 {
						fr = append(fr, fmt.Sprint(n))
					} else {
						fr = append(fr, fmt.Sprintf("%d/%d", n, d))
					}
				}
			}
			for i := 0; i < 200; i++ {
				fr = append(fr, fmt.Sprintf("%d/%d", 1+rng.Intn(999), 1+rng.Intn(999)))
			}
			// a meter is a numerator of 1..255 over a note value (a power of two up to 128): what a MIDI time signature can
			// carry; anything else is refused (C07)
			mt := []string{}
			for n := 1; n <= 255; n++ {
				for _, d := range []int{1, 2, 4, 8, 16, 32, 64, 128} {
					if n <= 16 || (n*7+d)%23 == 0 || n == 255 {
						if d == 1 && n%2 == 0 {
							mt = append(mt, fmt.Sprint(n))
						} else {
							mt = append(mt, fmt.Sprintf("%d/%d", n, d))
						}
					}
				}
			}
			cases = append(cases, Case{"cmd": "scalar", "field": "value", "vals": fr}, Case{"cmd": "scalar", "field": "meter", "vals": mt})
			cases = append(cases, Case{"cmd": "scalar", "field": "velocity", "vals": dynamics})
			bp := []string{}
			for _, b := range []int{4, 5, 59, 60, 100, 120, 121, 240, 999, 1000, 65535, 65536, 1000000, 59999999, 60000000} { // (the tempi a MIDI event can carry; C07 owns the rest)
				bp = append(bp, fmt.Sprint(b))
			}
			cases = append(cases, Case{"cmd": "scalar", "field": "bpm", "vals": bp})
			for i := 0; i < nc; i++ {
				o := GenOpt{MaxLen: 8, RestP: 0.25, KeyP: 0.2, SettingP: 0.2, TextP: 0.3, Fractions: true, MultiVals: true, MaxDeg: 15, AllMarks: true, BassP: 0.4,
					Syms: allSymbols(), Texts: sampleTexts, FirstChord: true}
				fl := Flags{}
				if i%2 == 1 { // flags given to write conv override the first instance, whether or not it sets the field itself
					fl = randomFlags(rng, 0.6)
				}
				cases = append(cases, Case{"cmd": "cmt", "doc": randomDoc(rng, o), "flags": fl})
			}
			// free texts through `write conv | write`: what comes out of the text events is what was written (one record per text)
			for _, t := range []string{"hello", "the end\n\n\n", "a\nb", "first\r\nsecond", "x\r", " lead", "trail ", "\ttab", "- dash", "# hash", "'q'", "\"dq\"", "a: b", "[x]", "{y}", "null", "~", "true", "1.0", "0x10",
				"|", ">", "|+", "&a", "*a", "!t", "%p", "@a", "`b", "?", ":", "日本語 🎵", "\u00a0", "\u2028", "\u0085", "é", "\n", "\n\n", " \n", "\r\n", "\t", " ", "a\u0000b", "\u001b[0m", "\ufeffx"} {
				cases = append(cases, Case{"cmd": "textrt", "text": t})
			}
			// ... and through `text conv | write`, the text sitting on the last instance as its only setting (the very end of the YAML)
			for _, t := range []string{"the end\n\n\n", "a\n", "a\r\nb", "x\r", "first\r\nsecond\r\n", ";-) x", "a ;b\n;c", "trail  ", "tab\t", "日本\n", "a\n\n\nb", "| x", "> y", "- z\n"} {
				for _, key := range []string{"txt", "lic", "mrk"} {
					cases = append(cases, Case{"cmd": "texttc", "text": t, "mkey": key})
				}
			}
			// a piece whose instances YAML is larger than a mebibyte goes through the pipe whole
			cases = append(cases, Case{"cmd": "bigpipe", "n": 24000})
			// one physical line of the instances YAML longer than any line buffer: a 70 000-byte text, a 70 000-byte comment
			cases = append(cases, Case{"cmd": "bigline", "how": "text", "n": 70000}, Case{"cmd": "bigline", "how": "comment", "n": 70000},
				Case{"cmd": "bigline", "how": "text", "n": 65536}, Case{"cmd": "bigline", "how": "comment", "n": 1 << 20})
			return cases
		},
		Exec: func(c *Ctx, k Case) []Rec {
			switch cs(k, "cmd") {
			case "pipe":
				var p []PItem
				remarshal(k["prog"], &p)
				rng := rand.New(rand.NewSource(int64(ci(k, "seed"))))
				mode, key := cs(k, "mode"), cs(k, "key")
				var text string
				if mode == "degree" {
					text = degreeText(p, rng)
				} else {
					t, ok := syllableText(p, key, rng)
					if !ok {
						return nil
					}
					text = t
				}
				cr, cout := convRec(c, mode, key, text)
				rec := Rec{"kind": "pipe", "s": cr["s"], "mode": mode, "keyflag": chars(key), "convOk": cr["ok"], "writeOk": false,
					"division": 0, "ntracks": 0, "ev": [][]any{}}
				if cr["ok"] == true {
					r := c.crd([]string{"write"}, cout)
					f := smf.Parse(r.Stdout)
					rec["writeOk"] = r.Exit == 0 && f.Err == "" && len(r.Stdout) > 0
					rec["division"], rec["ntracks"], rec["ev"] = f.Division, f.NTracks, eventsOf(f)
				}
				return []Rec{rec}
			case "scalar":
				field, vals := cs(k, "field"), css(k, "vals")
				list := []map[string]any{}
				for _, v := range vals {
					m := map[string]any{"chord": map[string]any{"degree": "1", "name": ""}, "values": []string{"1"}}
					switch field {
					case "degree":
						m["chord"] = map[string]any{"degree": v, "name": ""}
					case "base":
						m["chord"] = map[string]any{"degree": "1", "name": "", "base": v}
					case "value":
						m["values"] = []string{v}
					case "bpm":
						if cb(k, "raw") { // the numeral as written, unquoted
							m["bpm"] = &yaml.Node{Kind: yaml.ScalarNode, Tag: "!!int", Value: v}
						} else {
							var n int
							fmt.Sscan(v, &n)
							m["bpm"] = n
						}
					default:
						m[field] = v
					}
					list = append(list, m)
				}
				doc, _ := yaml.Marshal(list)
				r := c.crd([]string{"write", "parse"}, doc)
				var ins []yOpInstance
				ok := r.Exit == 0 && len(r.Stdout) > 0 && yaml.Unmarshal(r.Stdout, &ins) == nil
				outs := []string{}
				for _, in := range ins {
					s := ""
					switch field {
					case "degree":
						if in.Chord != nil {
							s = in.Chord.Degree
						}
					case "base":
						if in.Chord != nil && in.Chord.Base != nil {
							s = *in.Chord.Base
						}
					case "value":
						if len(in.Values) == 1 {
							s = in.Values[0]
						}
					case "bpm":
						if in.BPM != nil {
							s = fmt.Sprint(*in.BPM)
						}
					case "velocity":
						if in.Velocity != nil {
							s = *in.Velocity
						}
					case "meter":
						if in.Meter != nil {
							s = *in.Meter
						}
					case "key":
						if in.Key != nil {
							s = *in.Key
						}
					}
					outs = append(outs, s)
				}
				return []Rec{{"kind": "scalar", "sub": field, "field": field, "ok": ok, "ins": strsChars(vals), "outs": strsChars(outs)}}
			case "bigpipe":
				n := ci(k, "n")
				var sb strings.Builder
				for i := 0; i < n; i++ {
					sb.WriteString("C[1] ")
				}
				r1 := c.crdEnv([]string{"text", "conv", "syllable"}, []byte(sb.String()), nil, 60*time.Second)
				rec := Rec{"kind": "bigpipe", "n": n, "convOk": r1.Exit == 0 && len(r1.Stdout) > 0, "yamlBytes": len(r1.Stdout), "writeOk": false, "ons": 0, "eot": 0, "division": 0}
				if rec["convOk"] == true {
					r2 := c.crdEnv([]string{"write"}, r1.Stdout, nil, 120*time.Second)
					f := smf.Parse(r2.Stdout)
					rec["writeOk"] = r2.Exit == 0 && f.Err == "" && len(r2.Stdout) > 0
					rec["ons"] = len(noteOns(f))
					rec["division"] = f.Division
					if len(f.TrackLen) > 0 {
						rec["eot"] = f.TrackLen[0]
					}
				}
				return []Rec{rec}
			case "texttc":
				t, mkey := cs(k, "text"), cs(k, "mkey")
				r1 := c.crd([]string{"text", "conv", "syllable"}, []byte("C[1] G[1]{"+mkey+"="+t+"}"))
				rec := Rec{"kind": "texttc", "sub": fmt.Sprintf("%s %q", mkey, t), "text": bytesOf([]byte(t)), "mkey": mkey, "convOk": r1.Exit == 0 && len(r1.Stdout) > 0, "writeOk": false, "payloads": [][]int{},
					"yamlText": []int{}}
				var printed []struct {
					Meta map[string]string `yaml:"meta"`
				}
				if yaml.Unmarshal(r1.Stdout, &printed) == nil && len(printed) > 0 {
					rec["yamlText"] = bytesOf([]byte(printed[len(printed)-1].Meta[mkey]))
				}
				if rec["convOk"] == true {
					r2 := c.crd([]string{"write"}, r1.Stdout)
					f := smf.Parse(r2.Stdout)
					rec["writeOk"] = r2.Exit == 0 && f.Err == "" && len(r2.Stdout) > 0
					ps := [][]int{}
					for _, e := range docTexts(c, f) {
						ps = append(ps, append([]int{e.A}, e.Data...))
					}
					rec["payloads"] = ps
				}
				return []Rec{rec}
			case "textrt":
				t := cs(k, "text")
				q := yamlQuoted(t)
				y := "- values: [\"1\"]\n  meta:\n    txt: " + q + "\n    lic: " + q + "\n- chord: {degree: \"1\", name: \"\"}\n  values: [\"1\"]\n  meta:\n    mrk: " + q + "\n"
				texts := func(b []byte) ([][]int, bool) {
					f := smf.Parse(b)
					out := [][]int{}
					for _, e := range docTexts(c, f) {
						out = append(out, append([]int{e.A}, e.Data...))
					}
					return out, f.Err == "" && len(b) > 0
				}
				r0 := c.crd([]string{"write"}, []byte(y))
				direct, ok0 := texts(r0.Stdout)
				r1 := c.crd([]string{"write", "parse"}, []byte(y))
				r2 := c.crd([]string{"write", "conv", "-c", "cmt"}, []byte(y))
				rec := Rec{"kind": "textrt", "sub": fmt.Sprintf("%q", t), "text": bytesOf([]byte(t)), "onlyBreaks": strings.Trim(t, "\r\n") == "" && t != "", "directOk": ok0 && r0.Exit == 0, "direct": direct,
					"convOk": r2.Exit == 0 && len(r2.Stdout) > 0, "parseOk": r1.Exit == 0 && len(r1.Stdout) > 0, "viaConvOk": false, "viaConv": [][]int{}}
				if rec["convOk"] == true {
					r3 := c.crd([]string{"write"}, r2.Stdout)
					via, ok3 := texts(r3.Stdout)
					rec["viaConvOk"], rec["viaConv"] = ok3 && r3.Exit == 0, via
				}
				return []Rec{rec}
			case "bigline":
				n, how := ci(k, "n"), cs(k, "how")
				long := strings.Repeat("x", n)
				text := "C[1] G[1] Am[1] F[1]\n"
				if how == "text" {
					text = "C[1]{txt=" + long + "} G[1] Am[1] F[1]\n"
				}
				r1 := c.crdEnv([]string{"text", "conv", "syllable"}, []byte(text), nil, 60*time.Second)
				y := r1.Stdout
				if how == "comment" { // a comment line between the first and the second instance
					if i := bytes.Index(y[1:], []byte("\n- ")); i >= 0 {
						y = append(append(append([]byte{}, y[:i+2]...), []byte("# "+long+"\n")...), y[i+2:]...)
					}
				}
				rec := Rec{"kind": "bigline", "sub": fmt.Sprint(how, n), "how": how, "n": n, "convOk": r1.Exit == 0 && len(r1.Stdout) > 0, "writeOk": false, "ons": 0, "eot": 0, "texts": []int{}, "division": 0}
				if rec["convOk"] == true {
					r2 := c.crdEnv([]string{"write"}, y, nil, 60*time.Second)
					f := smf.Parse(r2.Stdout)
					rec["writeOk"] = r2.Exit == 0 && f.Err == "" && len(r2.Stdout) > 0
					rec["ons"] = len(noteOns(f))
					rec["division"] = f.Division
					if len(f.TrackLen) > 0 {
						rec["eot"] = f.TrackLen[0]
					}
					tl := []int{}
					for _, e := range docTexts(c, f) {
						if e.A == 1 {
							tl = append(tl, len(e.Data))
						}
					}
					rec["texts"] = tl
				}
				return []Rec{rec}
			case "cmt":
				d := caseToDoc(k["doc"])
				fl := caseToFlags(k["flags"])
				r0 := c.crd(append([]string{"write"}, fl.Args()...), d.YAML())
				f0 := smf.Parse(r0.Stdout)
				r1 := c.crd(append([]string{"write", "conv", "-c", "cmt"}, fl.Args()...), d.YAML())
				rec := Rec{"kind": "cmt", "ok": r0.Exit == 0 && f0.Err == "" && len(r0.Stdout) > 0, "convOk": r1.Exit == 0 && len(r1.Stdout) > 0, "ok2": false,
					"ev": eventsOf(f0), "ev2": [][]any{}}
				if rec["convOk"] == true {
					r2 := c.crd([]string{"write"}, r1.Stdout)
					f2 := smf.Parse(r2.Stdout)
					rec["ok2"] = r2.Exit == 0 && f2.Err == "" && len(r2.Stdout) > 0
					rec["ev2"] = eventsOf(f2)
				}
				return []Rec{rec}
			}
			return nil
		},
	})
}

// yamlQuoted writes s as a YAML double-quoted scalar with everything outside printable ASCII escaped (a raw U+0085 or
// U+2028 inside the quotes would be a line break to YAML, folded into a blank)
func yamlQuoted(s string) string {
	var sb strings.Builder
	sb.WriteByte('"')
	for _, r := range s {
		switch {
		case r == '"' || r == '\\':
			sb.WriteByte('\\')
			sb.WriteRune(r)
		case r >= 0x20 && r < 0x7f:
			sb.WriteRune(r)
		case r > 0xffff:
			fmt.Fprintf(&sb, "\\U%08X", r)
		default:
			fmt.Fprintf(&sb, "\\u%04X", r)
		}
	}
	sb.WriteByte('"')
	return sb.String()
}
