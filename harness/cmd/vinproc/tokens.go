//go:build verif

package main

import (
	"bufio"
	"encoding/json"
	"fmt"
	"os"
	"path/filepath"

	"github.com/berquerant/crd/input/ast"
	"github.com/berquerant/ybase"
)

// fakeLexer feeds an arbitrary token string straight into the shipped LALR tables (the generated parser),
// independently of the real lexer's modes. It implements ybase.Lexer.
type fakeLexer struct {
	toks []int
	i    int
	err  error
}

func (f *fakeLexer) ResetBuffer()                         {}
func (f *fakeLexer) Buffer() string                       { return "" }
func (f *fakeLexer) Next() rune                           { return ybase.EOF }
func (f *fakeLexer) Peek() rune                           { return ybase.EOF }
func (f *fakeLexer) Discard() rune                        { return ybase.EOF }
func (f *fakeLexer) Err() error                           { return f.err }
func (f *fakeLexer) Debugf(string, ...any)                {}
func (f *fakeLexer) Errorf(err error, _ string, _ ...any) { f.err = err }
func (f *fakeLexer) DiscardWhile(func(rune) bool)         {}
func (f *fakeLexer) NextWhile(func(rune) bool)            {}
func (f *fakeLexer) Pos() ybase.Pos                       { return ybase.NewPos(1, 0, 0) }
func (f *fakeLexer) Scan() int                            { return ybase.EOF }
func (f *fakeLexer) Error(msg string)                     { f.err = fmt.Errorf("%s", msg) }
func (f *fakeLexer) DoLex(cb func(ybase.Token)) int {
	if f.err != nil || f.i >= len(f.toks) {
		return ybase.EOF
	}
	t := f.toks[f.i]
	f.i++
	cb(ybase.NewToken(t, "x", f.Pos(), f.Pos()))
	return t
}

var tokenCodes = []int{ast.SYLLABLE, ast.SLASH, ast.LBRA, ast.RBRA, ast.COMMA, ast.SHARP, ast.FLAT, ast.NUMBER, ast.SYMBOL, ast.REST,
	ast.UNDERSCORE, ast.LCBRA, ast.RCBRA, ast.EQUAL, ast.METADATA}
var tokenNames = []string{"SYLLABLE", "SLASH", "LBRA", "RBRA", "COMMA", "SHARP", "FLAT", "NUMBER", "SYMBOL", "REST",
	"UNDERSCORE", "LCBRA", "RCBRA", "EQUAL", "METADATA"}

// accepts: does the shipped parser accept this token string (indices into tokenCodes)?
func accepts(ix []int) (ok bool, items int) {
	toks := make([]int, len(ix))
	for i, x := range ix {
		toks[i] = tokenCodes[x]
	}
	fl := &fakeLexer{toks: toks}
	lx := &ast.Lexer{Lexer: fl}
	rc := ast.Parse(lx)
	if rc == 0 && fl.err == nil && lx.Result != nil {
		return true, len(lx.Result.List)
	}
	return false, 0
}

func tokensMode(tier, out, aux string) {
	maxLen := 4
	if tier == "thorough" {
		maxLen = 5
	}
	f, _ := os.Create(filepath.Join(out, "records.ndjson"))
	bw := bufio.NewWriterSize(f, 1<<20)
	count, acc := 0, 0
	emit := func(ix []int) {
		ok, n := accepts(ix)
		if ok {
			acc++
		}
		count++
		fmt.Fprintf(bw, "{\"kind\":\"toks\",\"t\":%s,\"ok\":%v,\"n\":%d}\n", jsonInts(ix), ok, n)
	}
	// all token strings up to maxLen
	var rec func(prefix []int)
	rec = func(prefix []int) {
		emit(prefix)
		if len(prefix) == maxLen {
			return
		}
		for t := range tokenCodes {
			rec(append(append([]int{}, prefix...), t))
		}
	}
	rec([]int{})
	// every single-token deletion / substitution / insertion of every grammar sentence TLC derived
	idx := map[string]int{}
	for i, n := range tokenNames {
		idx[n] = i
	}
	seen := map[string]bool{}
	if fa, err := os.Open(aux); err == nil {
		sc := bufio.NewScanner(fa)
		sc.Buffer(make([]byte, 1<<20), 1<<24)
		for sc.Scan() {
			var r struct {
				Toks []string `json:"toks"`
			}
			if json.Unmarshal(sc.Bytes(), &r) != nil || len(r.Toks) == 0 {
				continue
			}
			s := make([]int, len(r.Toks))
			for i, t := range r.Toks {
				s[i] = idx[t]
			}
			try := func(m []int) {
				k := jsonInts(m)
				if len(m) > maxLen && !seen[k] {
					seen[k] = true
					emit(m)
				}
			}
			try(s)
			for i := range s {
				try(append(append([]int{}, s[:i]...), s[i+1:]...))
				for t := range tokenCodes {
					m := append([]int{}, s...)
					m[i] = t
					try(m)
				}
			}
			for i := 0; i <= len(s); i++ {
				for t := range tokenCodes {
					m := append(append(append([]int{}, s[:i]...), t), s[i:]...)
					try(m)
				}
			}
		}
		fa.Close()
	}
	bw.Flush()
	f.Close()
	meta := map[string]any{"evaluations": count, "distinct_nontrivial": count, "traces": count, "exhaustive": true,
		"rule":    fmt.Sprintf("ALL token strings over the 15 terminals up to length %d, plus every single-token deletion / substitution / insertion of every grammar sentence TLC derived, injected through a fake ybase.Lexer straight into the shipped LALR tables (ast.Parse); all distinct", maxLen),
		"samples": []any{map[string]any{"t": []string{"SYLLABLE", "LBRA", "NUMBER", "RBRA"}, "ok": true}}, "files": []string{"records.ndjson"},
		"extra": map[string]any{"accepted": acc, "rejected": count - acc}}
	b, _ := json.MarshalIndent(meta, "", " ")
	_ = os.WriteFile(filepath.Join(out, "meta.json"), b, 0o644)
}

func jsonInts(x []int) string {
	b, _ := json.Marshal(x)
	if x == nil {
		return "[]"
	}
	return string(b)
}
