//go:build verif

package main

import (
	"bufio"
	"bytes"
	"encoding/json"
	"fmt"
	"math"
	"math/rand"
	"os"
	"path/filepath"

	"github.com/berquerant/crd/midix"

	"verif/harness/internal/smf"
)

// sat mode: the writer's bookkeeping at the limits of its machine arithmetic (WriterSat.tla). Lengths are multiples of
// U = 2^26 ticks, so that the limit of the file format (2^28 ticks) is 4 units and a uint32 word holds 64 units; the
// state read through the hooks is recorded in units (a saturated word, 2^32-1, is recorded as 63 = W-1).
const satUnit = 1 << 26

func satScale(x uint32) (int, bool) {
	if x == math.MaxUint32 {
		return 63, true
	}
	return int(x / satUnit), x%satUnit == 0
}

func satTrace(rng *rand.Rand, n, maxCalls int) (rec, error) {
	return satTraceMode(rng, n, maxCalls, false)
}

// long = true: a piece whose total passes the size of a word (64 units) while every single delta stays within the format's
// limit (every track gets an event at least every 3 units): it must be written, and written right
func satTraceMode(rng *rand.Rand, n, maxCalls int, long bool) (rec, error) {
	set, err := midix.NewTrackSetControllerFromTrackNum(n)
	if err != nil {
		return nil, err
	}
	w := midix.NewWriter(960, set, "Piano", 0)
	exact := true
	snap := func() (int, []int, [][]int) {
		tp := []int{}
		ds := [][]int{}
		for t := 0; t < n; t++ {
			tr := set.Set().Get(t)
			v, ok := satScale(tr.VerifTickDelta())
			exact = exact && ok
			tp = append(tp, v)
			d := []int{}
			for _, x := range tr.VerifOpDeltas() {
				v, ok := satScale(x)
				exact = exact && ok
				d = append(d, v)
			}
			ds = append(ds, d)
		}
		v, ok := satScale(w.VerifTickDelta())
		exact = exact && ok
		return v, tp, ds
	}
	events := []rec{}
	emit := func(e rec) {
		e["mw"], e["mtp"], e["mop"] = snap()
		events = append(events, e)
	}
	{ // the three events NewWriter queued on track 0 (all delta 0)
		mw, mtp, ds := snap()
		for k := 1; k <= 3 && k <= len(ds[0]); k++ { // (as many as the writer queued: fewer than three is its business)
			d2 := make([][]int, n)
			for t := range d2 {
				d2[t] = []int{}
			}
			d2[0] = append([]int{}, ds[0][:k]...)
			events = append(events, rec{"op": "meta", "mw": mw, "mtp": mtp, "mop": d2})
		}
	}
	value := func(k int) float64 { return float64(k) * satUnit / 960 }
	// lengths in units: mostly small, sometimes around the format limit (4), sometimes around the word size (64)
	pick := func() int {
		switch rng.Intn(6) {
		case 0:
			return 3 + rng.Intn(3)
		case 1:
			return 14 + rng.Intn(8)
		case 2:
			return 60 + rng.Intn(10)
		}
		return 1 + rng.Intn(2)
	}
	calls := 1 + rng.Intn(maxCalls)
	if long {
		calls = 0
		voices := n - 1
		if voices < 1 {
			voices = 1
		}
		idleMeta := n >= 2 && rng.Intn(2) == 0 // the conductor track says nothing while the voices play on: its delay passes a word
		for i := 0; i < 36+rng.Intn(10); i++ {
			if idleMeta {
				k := 1 + rng.Intn(3)
				keys := []uint8{}
				for j := 0; j < voices; j++ {
					keys = append(keys, uint8(60+j))
				}
				if err := w.Note(value(k), 64, keys...); err != nil {
					return nil, err
				}
				emit(rec{"op": "note", "k": k, "n": voices})
				continue
			}
			w.Tempo(60 + rng.Intn(180))
			emit(rec{"op": "meta"})
			if rng.Intn(4) == 0 {
				w.Rest(value(1))
				emit(rec{"op": "rest", "k": 1})
				w.Tempo(60 + rng.Intn(180))
				emit(rec{"op": "meta"})
			}
			k := 1 + rng.Intn(3)
			keys := []uint8{}
			for j := 0; j < voices; j++ {
				keys = append(keys, uint8(60+j))
			}
			if err := w.Note(value(k), 64, keys...); err != nil {
				return nil, err
			}
			emit(rec{"op": "note", "k": k, "n": voices})
		}
		if idleMeta { // ... then speaks again (after a short rest)
			w.Rest(value(1))
			emit(rec{"op": "rest", "k": 1})
			w.Tempo(120)
			emit(rec{"op": "meta"})
		}
	}
	for i := 0; i < calls; i++ {
		switch rng.Intn(6) {
		case 0:
			w.Tempo(60 + rng.Intn(180))
			emit(rec{"op": "meta"})
		case 1, 2, 3:
			k := pick()
			w.Rest(value(k))
			emit(rec{"op": "rest", "k": k})
		default:
			k, nk := pick(), 1+rng.Intn(2)
			keys := []uint8{}
			for j := 0; j < nk; j++ {
				keys = append(keys, uint8(60+j))
			}
			if err := w.Note(value(k), 64, keys...); err != nil {
				return nil, err
			}
			emit(rec{"op": "note", "k": k, "n": nk})
		}
	}
	w.Close()
	emit(rec{"op": "close"})
	var buf bytes.Buffer
	_, werr := w.WriteTo(&buf)
	outcome := "written"
	if werr != nil {
		outcome = "refused"
	}
	e := rec{"op": "write", "outcome": outcome}
	emit(e)
	// what was written, per track, in units: [tick, kind, key]
	final := make([][][]any, n)
	for t := range final {
		final[t] = [][]any{}
	}
	finalExact, parsed := true, false
	if werr == nil {
		f := smf.Parse(buf.Bytes())
		parsed = f.Err == ""
		for _, ev := range f.Events {
			kind, key := "meta", 0
			switch {
			case ev.Kind == smf.KindOn && ev.B > 0:
				kind, key = "on", ev.A
			case ev.Kind == smf.KindOff || (ev.Kind == smf.KindOn && ev.B == 0):
				kind, key = "off", ev.A
			case ev.Kind == smf.KindMeta && ev.A == smf.MetaEOT:
				kind = "eot"
			}
			if ev.Tick%satUnit != 0 {
				finalExact = false
			}
			if ev.Track < n {
				final[ev.Track] = append(final[ev.Track], []any{ev.Tick / satUnit, kind, key})
			}
		}
	}
	return rec{"kind": "sattrace", "n": n, "events": events, "exact": exact, "final": final, "finalExact": finalExact, "parsed": parsed}, nil
}

func satMode(seed int64, tier, out string, n int) {
	count, maxCalls := 150, 8
	if tier == "thorough" {
		count, maxCalls = 1500, 14
	}
	rng := rand.New(rand.NewSource(seed*977 + int64(n)))
	f, err := os.Create(filepath.Join(out, "records.ndjson"))
	if err != nil {
		fmt.Fprintln(os.Stderr, err)
		os.Exit(2)
	}
	bw := bufio.NewWriter(f)
	enc := json.NewEncoder(bw)
	samples := []any{}
	refused := 0
	for i := 0; i < count; i++ {
		r, err := satTraceMode(rng, n, maxCalls, i%12 == 11 && n <= 3)
		if err != nil {
			fmt.Fprintln(os.Stderr, "sat trace:", err)
			os.Exit(2)
		}
		ev := r["events"].([]rec)
		if ev[len(ev)-1]["outcome"] == "refused" {
			refused++
		}
		if i < 1 {
			samples = append(samples, r)
		}
		_ = enc.Encode(r)
	}
	bw.Flush()
	f.Close()
	meta := map[string]any{"evaluations": count, "distinct_nontrivial": count, "traces": count, "exhaustive": false,
		"rule": fmt.Sprintf("seeded sequences of MIDIWriter calls on %d tracks of the real midix package with lengths that are multiples of 2^26 ticks (1..2, around the format limit of 4, around the "+
			"word size of 64 units), then Close and WriteTo; after every call the pending deltas and the queued op deltas are read through the verif hooks and recorded in units; a trace is one call sequence", n),
		"samples": samples, "files": []string{"records.ndjson"}, "extra": map[string]any{"refused": refused, "written": count - refused, "tracks": n}}
	b, _ := json.MarshalIndent(meta, "", " ")
	_ = os.WriteFile(filepath.Join(out, "meta.json"), b, 0o644)
}
