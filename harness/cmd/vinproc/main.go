//go:build verif

// vinproc: in-process observation of the real crd packages (built with -tags verif against the working tree).
// It records step-level traces of the real mechanisms -- here the MIDI writer's time bookkeeping -- for TLC
// to validate against the mechanism model (Writer.tla). It never judges anything. If it does not compile
// against a refactored tree, ./check degrades to the CLI path.
package main

import (
	"bufio"
	"bytes"
	"encoding/json"
	"flag"
	"fmt"
	"math"
	"math/rand"
	"os"
	"path/filepath"

	"io"

	"github.com/berquerant/crd/chord"
	"github.com/berquerant/crd/midix"
	"github.com/berquerant/crd/note"
	"github.com/berquerant/crd/op"
	"github.com/berquerant/crd/play"

	"verif/harness/internal/smf"
)

type rec = map[string]any

func snapshot(w *midix.MIDIWriter, set *midix.TrackSetController, n int) (int, []int, [][]int) {
	tp := []int{}
	deltas := [][]int{}
	for t := 0; t < n; t++ {
		tr := set.Set().Get(t)
		tp = append(tp, int(tr.VerifTickDelta()))
		ds := []int{}
		for _, d := range tr.VerifOpDeltas() {
			ds = append(ds, int(d))
		}
		deltas = append(deltas, ds)
	}
	return int(w.VerifTickDelta()), tp, deltas
}

func writerTrace(rng *rand.Rand, n int, maxCalls int) (rec, error) {
	set, err := midix.NewTrackSetControllerFromTrackNum(n)
	if err != nil {
		return nil, err
	}
	w := midix.NewWriter(960, set, "Piano", 0)
	events := []rec{}
	emit := func(e rec) {
		wp, tp, ds := snapshot(w, set, n)
		e["wpend"], e["tpend"], e["deltas"] = wp, tp, ds
		events = append(events, e)
	}
	// NewWriter queued three events on track 0 (name, instrument, program): the state after each is synthesised
	// from the final one (they all carry delta 0), the rest of the trace is observed call by call
	{
		wp, tp, ds := snapshot(w, set, n)
		for k := 1; k <= 3 && k <= len(ds[0]); k++ { // (as many as the writer queued: fewer than three is its business)
			d2 := make([][]int, n)
			for t := range d2 {
				d2[t] = []int{}
			}
			d2[0] = append([]int{}, ds[0][:k]...)
			events = append(events, rec{"op": "meta", "name": []string{"name", "instrument", "program"}[k-1], "wpend": wp, "tpend": tp, "deltas": d2})
		}
	}
	values := []float64{1, 0.5, 2, 1.0 / 3, 0.25, 1.5, 70, 1.0 / 960, 7.0 / 960}
	calls := 1 + rng.Intn(maxCalls)
	for i := 0; i < calls; i++ {
		switch rng.Intn(7) {
		case 0:
			w.Tempo(60 + rng.Intn(180))
			emit(rec{"op": "meta", "name": "tempo"})
		case 1:
			switch rng.Intn(4) {
			case 0:
				w.Text("t")
			case 1:
				w.Lyric("l")
			case 2:
				w.Marker("m")
			case 3:
				w.Meter(3, 4)
			}
			emit(rec{"op": "meta", "name": "text"})
		case 2, 3:
			v := values[rng.Intn(len(values))]
			w.Rest(v)
			emit(rec{"op": "rest", "k": int(math.Round(960 * v))})
		default:
			v := values[rng.Intn(len(values))]
			nk := 1 + rng.Intn(6)
			keys := []uint8{}
			ks := []int{}
			for j := 0; j < nk; j++ {
				k := 36 + rng.Intn(60)
				keys = append(keys, uint8(k))
				ks = append(ks, k)
			}
			if err := w.Note(v, 64, keys...); err != nil {
				return nil, err
			}
			emit(rec{"op": "note", "k": int(math.Round(960 * v)), "keys": ks})
		}
	}
	w.Close()
	emit(rec{"op": "close"})
	var buf bytes.Buffer
	if _, err := w.WriteTo(&buf); err != nil {
		return rec{"kind": "wtrace", "n": n, "events": events, "written": false, "final": [][][]any{}}, nil
	}
	f := smf.Parse(buf.Bytes())
	final := make([][][]any, n)
	for t := range final {
		final[t] = [][]any{}
	}
	for _, e := range f.Events {
		kind, key := "meta", 0
		switch {
		case e.Kind == smf.KindOn && e.B > 0:
			kind, key = "on", e.A
		case e.Kind == smf.KindOff || (e.Kind == smf.KindOn && e.B == 0):
			kind, key = "off", e.A
		case e.Kind == smf.KindMeta && e.A == smf.MetaEOT:
			kind = "eot"
		}
		if e.Track < n {
			final[e.Track] = append(final[e.Track], []any{e.Tick, kind, key})
		}
	}
	return rec{"kind": "wtrace", "n": n, "events": events, "written": f.Err == "", "final": final}, nil
}

// ---------------------------------------------------------------- play: calls made by the real play.MIDIWriter

type recWriter struct{ calls [][]any }

func ints(b []byte) []int {
	r := []int{}
	for _, x := range b {
		r = append(r, int(x))
	}
	return r
}
func (r *recWriter) Note(value float64, velocity uint8, key ...uint8) error {
	r.calls = append(r.calls, []any{"note", int(math.Round(960 * value)), int(velocity), ints(key)})
	return nil
}
func (r *recWriter) Tempo(bpm int) { r.calls = append(r.calls, []any{"tempo", bpm}) }
func (r *recWriter) Meter(num, denom uint8) {
	r.calls = append(r.calls, []any{"meter", int(num), int(denom)})
}
func (r *recWriter) Key(key uint8, isMajor bool, num uint8, isFlat bool) {
	r.calls = append(r.calls, []any{"key", int(key), isMajor, int(num), isFlat})
}
func (r *recWriter) Text(t string)   { r.calls = append(r.calls, []any{"text", ints([]byte(t))}) }
func (r *recWriter) Lyric(t string)  { r.calls = append(r.calls, []any{"lyric", ints([]byte(t))}) }
func (r *recWriter) Marker(t string) { r.calls = append(r.calls, []any{"marker", ints([]byte(t))}) }
func (r *recWriter) Close()          { r.calls = append(r.calls, []any{"close"}) }
func (r *recWriter) Rest(value float64) {
	r.calls = append(r.calls, []any{"rest", int(math.Round(960 * value))})
}
func (r *recWriter) WriteTo(io.Writer) (int64, error) { return 0, nil }

var keyNames = []string{"Cb", "Gb", "Db", "Ab", "Eb", "Bb", "F", "C", "G", "D", "A", "E", "B", "F#", "C#",
	"Am", "Em", "Bm", "F#m", "C#m", "G#m", "D#m", "Dm", "Gm", "Cm", "Fm", "Bbm", "Ebm"}
var symNames = []string{"", "m", "7", "maj7", "m7b5", "sus4", "dim7", "add9", "MinorNinth", "6"}

func codes(s string) []int {
	r := []int{}
	for _, x := range s {
		r = append(r, int(x))
	}
	return r
}

// playTrace builds a random document both as op.Instances (for the real play package) and in the abstract
// form Piece.tla reads, and records the calls play.MIDIWriter.Write makes on the writer interface
func playTrace(rng *rand.Rand, cmap *chord.Map) (rec, error) {
	n := 1 + rng.Intn(8)
	ins := []op.Instance{}
	abs := []rec{}
	for i := 0; i < n; i++ {
		var in op.Instance
		a := rec{"rest": true, "deg": []int{}, "base": []int{}, "sym": "", "bpm": 0, "meter": []int{}, "vel": "", "key": []int{}, "txt": []int{}, "lic": []int{}, "mrk": []int{}}
		nv := 1 + rng.Intn(2)
		vals := [][]int{}
		for j := 0; j < nv; j++ {
			f := [][2]uint{{1, 1}, {1, 2}, {2, 1}, {1, 3}, {3, 4}, {5, 4}, {7, 8}}[rng.Intn(7)]
			v, err := note.NewValue(f[0], f[1])
			if err != nil {
				return nil, err
			}
			in.Values = append(in.Values, v)
			vals = append(vals, []int{int(f[0]), int(f[1])})
		}
		a["vals"] = vals
		if rng.Intn(4) != 0 {
			degS := []string{"", "b", "#", "bb"}[rng.Intn(4)] + fmt.Sprint(1+rng.Intn(12))
			d, err := note.ParseDegree(degS)
			if err != nil {
				return nil, err
			}
			sym := symNames[rng.Intn(len(symNames))]
			cd, ok := cmap.GetChord(sym)
			if !ok {
				return nil, fmt.Errorf("no chord %q", sym)
			}
			var base *note.Degree
			if rng.Intn(3) == 0 {
				bS := []string{"", "b", "#"}[rng.Intn(3)] + fmt.Sprint(1+rng.Intn(9))
				b, err := note.ParseDegree(bS)
				if err != nil {
					return nil, err
				}
				base = &b
				a["base"] = codes(bS)
			}
			c := op.NewChord(d, cd, base)
			in.Chord = &c
			a["rest"], a["deg"], a["sym"] = false, codes(degS), sym
		}
		if rng.Intn(4) == 0 {
			b, _ := op.NewBPM(uint(30 + rng.Intn(200)))
			in.BPM = &b
			a["bpm"] = int(b)
		}
		if rng.Intn(5) == 0 {
			m, _ := op.NewMeter(uint(1+rng.Intn(12)), []uint{2, 4, 8}[rng.Intn(3)])
			in.Meter = &m
			a["meter"] = []int{int(m.Num), int(m.Denom)}
		}
		if rng.Intn(4) == 0 {
			vs := []string{"pp", "p", "mp", "mf", "f", "ff"}[rng.Intn(6)]
			v := op.NewDynamicSign(vs)
			in.Velocity = &v
			a["vel"] = vs
		}
		if rng.Intn(3) == 0 {
			ks := keyNames[rng.Intn(len(keyNames))]
			k, err := op.ParseKey(ks)
			if err != nil {
				return nil, err
			}
			in.Key = &k
			a["key"] = codes(ks)
		}
		if rng.Intn(3) == 0 {
			m := op.NewMeta()
			for _, kk := range []string{"txt", "lic", "mrk"} {
				if rng.Intn(2) == 0 {
					t := []string{"x", "hello", "é♭"}[rng.Intn(3)]
					m.Set(kk, t)
					a[kk] = ints([]byte(t))
				}
			}
			if rng.Intn(3) == 0 {
				m.Set("bpm", "120") // metadata that is not a text: the cell is updated, nothing is emitted
			}
			in.Meta = m
		}
		ins = append(ins, in)
		abs = append(abs, a)
	}
	w := &recWriter{}
	pw := play.NewWriter(cmap, func(k op.Key) play.Key { return play.NewKey(k, cmap) })
	err := pw.Write(w, ins)
	return rec{"kind": "ptrace", "doc": abs, "calls": w.calls, "ok": err == nil}, nil
}

func main() {
	var seed int64
	var tier, out string
	var n int
	flag.Int64Var(&seed, "seed", 1, "seed")
	flag.StringVar(&tier, "tier", "quick", "tier")
	flag.StringVar(&out, "out", "", "output dir")
	flag.IntVar(&n, "n", 1, "number of tracks")
	// flags of vdrive that ./check passes to every driver
	_ = flag.String("bin", "", "")
	_ = flag.String("repo", "", "")
	_ = flag.String("replay", "", "")
	aux := flag.String("aux", "", "auxiliary input")
	flag.Parse()
	_ = os.MkdirAll(out, 0o755)
	if flag.Arg(0) == "circle" {
		circleMode(tier, out)
		return
	}
	if flag.Arg(0) == "degree" {
		degreeMode(out)
		return
	}
	if flag.Arg(0) == "gate" {
		gateMode(out, *aux)
		return
	}
	if flag.Arg(0) == "sat" {
		satMode(seed, tier, out, n)
		return
	}
	if flag.Arg(0) == "lexer" {
		lexerMode(seed, tier, out)
		return
	}
	if flag.Arg(0) == "iter" {
		iterMode(seed, tier, out)
		return
	}
	if flag.Arg(0) == "tokens" {
		tokensMode(tier, out, *aux)
		return
	}
	if flag.Arg(0) == "play" {
		b := chord.NewBuilder()
		for _, x := range chord.BasicAttributes() {
			b.Attribute(x)
		}
		for _, x := range chord.BasicChords() {
			b.Chord(x)
		}
		cmap, err := b.Build()
		if err != nil {
			fmt.Fprintln(os.Stderr, err)
			os.Exit(2)
		}
		count := 300
		if tier == "thorough" {
			count = 4000
		}
		rng := rand.New(rand.NewSource(seed))
		recs := []any{}
		for i := 0; i < count; i++ {
			r, err := playTrace(rng, cmap)
			if err != nil {
				fmt.Fprintln(os.Stderr, "play trace:", err)
				os.Exit(2)
			}
			recs = append(recs, r)
		}
		f, _ := os.Create(filepath.Join(out, "records.ndjson"))
		bw := bufio.NewWriter(f)
		enc := json.NewEncoder(bw)
		for _, r := range recs {
			_ = enc.Encode(r)
		}
		bw.Flush()
		f.Close()
		meta := map[string]any{"evaluations": count, "distinct_nontrivial": count, "traces": count, "exhaustive": false,
			"rule":    "seeded instance lists (chords with any degree/symbol/bass, rests, settings and texts on any instance) handed in-process to the real play.MIDIWriter.Write with a recording midix.Writer; a trace is the sequence of writer calls",
			"samples": recs[:1], "files": []string{"records.ndjson"}}
		bb, _ := json.MarshalIndent(meta, "", " ")
		_ = os.WriteFile(filepath.Join(out, "meta.json"), bb, 0o644)
		return
	}
	if flag.Arg(0) != "writer" {
		fmt.Fprintln(os.Stderr, "usage: vinproc [flags] writer|play")
		os.Exit(2)
	}
	count, maxCalls := 60, 12
	if tier == "thorough" {
		count, maxCalls = 600, 40
	}
	rng := rand.New(rand.NewSource(seed*1000 + int64(n)))
	f, err := os.Create(filepath.Join(out, "records.ndjson"))
	if err != nil {
		fmt.Fprintln(os.Stderr, err)
		os.Exit(2)
	}
	bw := bufio.NewWriter(f)
	enc := json.NewEncoder(bw)
	samples := []any{}
	nev := 0
	for i := 0; i < count; i++ {
		r, err := writerTrace(rng, n, maxCalls)
		if err != nil {
			fmt.Fprintln(os.Stderr, "trace:", err)
			os.Exit(2)
		}
		nev += len(r["events"].([]rec))
		if i < 1 {
			samples = append(samples, r)
		}
		_ = enc.Encode(r)
	}
	bw.Flush()
	f.Close()
	meta := map[string]any{"evaluations": count, "distinct_nontrivial": count, "traces": count, "exhaustive": false,
		"rule": fmt.Sprintf("seeded sequences of MIDIWriter calls (Tempo/Meter/Text/Lyric/Marker, Rest, Note with 1..6 keys, Close) on %d tracks of the real midix package; after every call the pending deltas and "+
			"the queued op deltas are read through the verif hooks; a trace is one call sequence", n),
		"samples": samples, "files": []string{"records.ndjson"}, "extra": map[string]any{"events": nev, "tracks": n}}
	b, _ := json.MarshalIndent(meta, "", " ")
	_ = os.WriteFile(filepath.Join(out, "meta.json"), b, 0o644)
}
