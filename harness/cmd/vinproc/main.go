//go:build verif

// vinproc: in-process observation of the real crd packages (built with -tags verif against the working tree).
// It records step-level traces of the real mechanisms -- here the MIDI writer's time bookkeeping -- for TLC
// to validate against the mechanism model (Writer.tla). It never judges anything. If it does not compile
// against a refactored tree, ./check degrades to the CLI path.
package main

import (
	"bufio"
	"bytes"
	"encoding/json"
	"flag"
	"fmt"
	"math"
	"math/rand"
	"os"
	"path/filepath"

	"github.com/berquerant/crd/midix"

	"verif/harness/internal/smf"
)

type rec = map[string]any

func snapshot(w *midix.MIDIWriter, set *midix.TrackSetController, n int) (int, []int, [][]int) {
	tp := []int{}
	deltas := [][]int{}
	for t := 0; t < n; t++ {
		tr := set.Set().Get(t)
		tp = append(tp, int(tr.VerifTickDelta()))
		ds := []int{}
		for _, d := range tr.VerifOpDeltas() {
			ds = append(ds, int(d))
		}
		deltas = append(deltas, ds)
	}
	return int(w.VerifTickDelta()), tp, deltas
}

func writerTrace(rng *rand.Rand, n int, maxCalls int) (rec, error) {
	set, err := midix.NewTrackSetControllerFromTrackNum(n)
	if err != nil {
		return nil, err
	}
	w := midix.NewWriter(960, set, "Piano", 0)
	events := []rec{}
	emit := func(e rec) {
		wp, tp, ds := snapshot(w, set, n)
		e["wpend"], e["tpend"], e["deltas"] = wp, tp, ds
		events = append(events, e)
	}
	// NewWriter queued three events on track 0 (name, instrument, program): the state after each is synthesised
	// from the final one (they all carry delta 0), the rest of the trace is observed call by call
	{
		wp, tp, ds := snapshot(w, set, n)
		for k := 1; k <= 3; k++ {
			d2 := make([][]int, n)
			for t := range d2 {
				d2[t] = []int{}
			}
			d2[0] = append([]int{}, ds[0][:k]...)
			events = append(events, rec{"op": "meta", "name": []string{"name", "instrument", "program"}[k-1], "wpend": wp, "tpend": tp, "deltas": d2})
		}
	}
	values := []float64{1, 0.5, 2, 1.0 / 3, 0.25, 1.5, 70, 1.0 / 960, 7.0 / 960}
	calls := 1 + rng.Intn(maxCalls)
	for i := 0; i < calls; i++ {
		switch rng.Intn(7) {
		case 0:
			w.Tempo(60 + rng.Intn(180))
			emit(rec{"op": "meta", "name": "tempo"})
		case 1:
			switch rng.Intn(4) {
			case 0:
				w.Text("t")
			case 1:
				w.Lyric("l")
			case 2:
				w.Marker("m")
			case 3:
				w.Meter(3, 4)
			}
			emit(rec{"op": "meta", "name": "text"})
		case 2, 3:
			v := values[rng.Intn(len(values))]
			w.Rest(v)
			emit(rec{"op": "rest", "k": int(math.Round(960 * v))})
		default:
			v := values[rng.Intn(len(values))]
			nk := 1 + rng.Intn(6)
			keys := []uint8{}
			ks := []int{}
			for j := 0; j < nk; j++ {
				k := 36 + rng.Intn(60)
				keys = append(keys, uint8(k))
				ks = append(ks, k)
			}
			if err := w.Note(v, 64, keys...); err != nil {
				return nil, err
			}
			emit(rec{"op": "note", "k": int(math.Round(960 * v)), "keys": ks})
		}
	}
	w.Close()
	emit(rec{"op": "close"})
	var buf bytes.Buffer
	if _, err := w.WriteTo(&buf); err != nil {
		return rec{"kind": "wtrace", "n": n, "events": events, "written": false, "final": [][][]any{}}, nil
	}
	f := smf.Parse(buf.Bytes())
	final := make([][][]any, n)
	for t := range final {
		final[t] = [][]any{}
	}
	for _, e := range f.Events {
		kind, key := "meta", 0
		switch {
		case e.Kind == smf.KindOn && e.B > 0:
			kind, key = "on", e.A
		case e.Kind == smf.KindOff || (e.Kind == smf.KindOn && e.B == 0):
			kind, key = "off", e.A
		case e.Kind == smf.KindMeta && e.A == smf.MetaEOT:
			kind = "eot"
		}
		if e.Track < n {
			final[e.Track] = append(final[e.Track], []any{e.Tick, kind, key})
		}
	}
	return rec{"kind": "wtrace", "n": n, "events": events, "written": f.Err == "", "final": final}, nil
}

func main() {
	var seed int64
	var tier, out string
	var n int
	flag.Int64Var(&seed, "seed", 1, "seed")
	flag.StringVar(&tier, "tier", "quick", "tier")
	flag.StringVar(&out, "out", "", "output dir")
	flag.IntVar(&n, "n", 1, "number of tracks")
	// flags of vdrive that ./check passes to every driver
	_ = flag.String("bin", "", "")
	_ = flag.String("repo", "", "")
	_ = flag.String("replay", "", "")
	flag.Parse()
	if flag.Arg(0) != "writer" {
		fmt.Fprintln(os.Stderr, "usage: vinproc [flags] writer")
		os.Exit(2)
	}
	_ = os.MkdirAll(out, 0o755)
	count, maxCalls := 60, 12
	if tier == "thorough" {
		count, maxCalls = 600, 40
	}
	rng := rand.New(rand.NewSource(seed*1000 + int64(n)))
	f, err := os.Create(filepath.Join(out, "records.ndjson"))
	if err != nil {
		fmt.Fprintln(os.Stderr, err)
		os.Exit(2)
	}
	bw := bufio.NewWriter(f)
	enc := json.NewEncoder(bw)
	samples := []any{}
	nev := 0
	for i := 0; i < count; i++ {
		r, err := writerTrace(rng, n, maxCalls)
		if err != nil {
			fmt.Fprintln(os.Stderr, "trace:", err)
			os.Exit(2)
		}
		nev += len(r["events"].([]rec))
		if i < 1 {
			samples = append(samples, r)
		}
		_ = enc.Encode(r)
	}
	bw.Flush()
	f.Close()
	meta := map[string]any{"evaluations": count, "distinct_nontrivial": count, "traces": count, "exhaustive": false,
		"rule": fmt.Sprintf("seeded sequences of MIDIWriter calls (Tempo/Meter/Text/Lyric/Marker, Rest, Note with 1..6 keys, Close) on %d tracks of the real midix package; after every call the pending deltas and "+
			"the queued op deltas are read through the verif hooks; a trace is one call sequence", n),
		"samples": samples, "files": []string{"records.ndjson"}, "extra": map[string]any{"events": nev, "tracks": n}}
	b, _ := json.MarshalIndent(meta, "", " ")
	_ = os.WriteFile(filepath.Join(out, "meta.json"), b, 0o644)
}
