//go:build verif

package main

import (
	"encoding/json"
	"fmt"
	"math/rand"
	"os"
	"path/filepath"
	"runtime"
	"strings"
	"time"

	"github.com/berquerant/crd/input/ast"
)

// iterMode runs the real goroutine+channel iterator (ast.IterVisitor.All) on parsed trees -- small ones, ones with
// more nodes than the channel capacity, consumers that stop early -- and records what the loop body saw.
func iterMode(seed int64, tier, out string) {
	rng := rand.New(rand.NewSource(seed))
	texts := []string{"C[1]", "R[1] C#m7/E[1,1/2]{a=b,c=d} 2_7[3]"}
	chords := []string{"C[1]", "D_7/F#[2]", "R[1,1/2]", "Bbm7b5[1/3]{key=Am,txt=x y}", "R[2]{bpm=90}", "5_7/3b[1]", "G#[1,2,3]"}
	n := 12
	if tier == "thorough" {
		n = 60
	}
	for i := 0; i < n; i++ {
		var sb strings.Builder
		if i%3 == 0 { // rests first: > 100 nodes without a degree
			for j := 0; j < 36+rng.Intn(30); j++ {
				sb.WriteString("R[1] ")
			}
		}
		for j := 0; j < 5+rng.Intn(120); j++ {
			sb.WriteString(chords[rng.Intn(len(chords))] + " ")
		}
		texts = append(texts, sb.String())
	}
	recs := []any{}
	for _, text := range texts {
		lex := ast.NewLexer(strings.NewReader(text))
		if ast.Parse(lex) != 0 || lex.Result == nil {
			continue
		}
		tree := lex.Result
		for _, stopAt := range []int{0, 1, 2, 7, 99, 100, 101, 102, 150, 100000} {
			for _, slow := range []bool{false, true} {
				before := runtime.NumGoroutine()
				got := []string{}
				k := 0
				for x := range ast.NewIterVisitor().All(tree) {
					k++
					if slow && k == 1 {
						time.Sleep(2 * time.Millisecond) // let the producer run ahead until the channel is full
					}
					got = append(got, strings.TrimPrefix(fmt.Sprintf("%T", x), "*ast."))
					if k == stopAt {
						break
					}
				}
				leaked := true
				for w := 0; w < 50; w++ { // the producer goroutine exits right after the drain
					if runtime.NumGoroutine() <= before {
						leaked = false
						break
					}
					time.Sleep(time.Millisecond)
				}
				cp := []int{}
				for _, r := range text {
					cp = append(cp, int(r))
				}
				recs = append(recs, rec{"kind": "iter", "s": cp, "stopAt": stopAt, "slow": slow, "got": got, "leaked": leaked})
			}
		}
	}
	f, _ := os.Create(filepath.Join(out, "records.ndjson"))
	enc := json.NewEncoder(f)
	for _, r := range recs {
		_ = enc.Encode(r)
	}
	f.Close()
	meta := map[string]any{"evaluations": len(recs), "distinct_nontrivial": len(recs), "traces": len(recs), "exhaustive": false,
		"rule":    "seeded chord texts (a few nodes up to several hundred, with and without > 100 leading degree-less nodes) parsed by the real parser and walked by the real ast.IterVisitor.All, with consumers that never stop or stop at node 1, 2, 7, 99..102, 150, fast and slow; a record is what the loop body saw",
		"samples": recs[:1], "files": []string{"records.ndjson"}}
	b, _ := json.MarshalIndent(meta, "", " ")
	_ = os.WriteFile(filepath.Join(out, "meta.json"), b, 0o644)
}
