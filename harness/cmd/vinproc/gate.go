//go:build verif

package main

import (
	"bufio"
	"encoding/json"
	"fmt"
	"os"
	"path/filepath"
	"regexp"
	"sort"
	"strconv"
	"strings"
	"time"

	"github.com/berquerant/crd/input/ast"
)

// gate mode: behaviours that TLC's simulator wrote for IterVisitor.tla (IterReplay.tla) are replayed on the real
// ast.IterVisitor.All. The producer goroutine is held in front of every send by the verif hook ast.VerifBeforeSend, the
// consumer inside its loop body; one action of the behaviour = one release. After every action the abstract state of the
// real object (channel length through the hook, nodes sent, nodes seen by the loop body) is compared with the state TLC
// wrote. The verdict is left to TLC (IterReplayTrace): a record carries the first difference, if any.

type mstate struct {
	action  string
	chLen   int
	sent    int
	got     int
	stopped bool
	ret     bool
	pc2     string
}

var (
	reAction = regexp.MustCompile(`^\\\* <(\w+) line`)
	reSeq    = regexp.MustCompile(`^/\\ (\w+) = <<(.*)>>$`)
	reVal    = regexp.MustCompile(`^/\\ (\w+) = (\w+)$`)
)

func seqLen(body string) int {
	body = strings.TrimSpace(body)
	if body == "" {
		return 0
	}
	return strings.Count(body, ",") + 1
}

func parseBehaviour(path string) ([]mstate, error) {
	f, err := os.Open(path)
	if err != nil {
		return nil, err
	}
	defer f.Close()
	out := []mstate{}
	cur := mstate{}
	have := false
	sc := bufio.NewScanner(f)
	sc.Buffer(make([]byte, 1<<20), 1<<24)
	flush := func() {
		if have {
			out = append(out, cur)
		}
	}
	for sc.Scan() {
		ln := strings.TrimRight(sc.Text(), " ")
		// TLC wraps long sequences over several lines
		for strings.HasPrefix(ln, "/\\ ") && strings.Contains(ln, "= <<") && !strings.HasSuffix(ln, ">>") && sc.Scan() {
			ln += " " + strings.TrimSpace(sc.Text())
		}
		if m := reAction.FindStringSubmatch(ln); m != nil {
			flush()
			cur, have = mstate{action: m[1]}, true
			continue
		}
		if m := reSeq.FindStringSubmatch(ln); m != nil {
			switch m[1] {
			case "ch":
				cur.chLen = seqLen(m[2])
			case "got":
				cur.got = seqLen(m[2])
			case "pc":
				parts := strings.Split(m[2], ",")
				if len(parts) == 2 {
					cur.pc2 = strings.Trim(strings.TrimSpace(parts[1]), `"`)
				}
			}
			continue
		}
		if m := reVal.FindStringSubmatch(ln); m != nil {
			switch m[1] {
			case "sent":
				cur.sent, _ = strconv.Atoi(m[2])
			case "stopped":
				cur.stopped = m[2] == "TRUE"
			case "returned":
				cur.ret = m[2] == "TRUE"
			}
		}
	}
	flush()
	return out, sc.Err()
}

// a tree with exactly n nodes: ChordList + k rests of 3 nodes (Rest, ChordValues, ChordValue) + one last rest with
// extra values
func treeWithNodes(n int) (ast.Node, bool) {
	// which nodes of a tree the iterator hands out is its own business (no property counts them): the tree is chosen by
	// counting what an ungated run of the real iterator yields
	if t, ok := treeCache[n]; ok {
		return t, t != nil
	}
	for k := 1; k <= n && !countHung; k++ {
		for extra := 0; extra < 3; extra++ {
			var sb strings.Builder
			for i := 0; i < k; i++ {
				if i == k-1 && extra > 0 {
					sb.WriteString("R[1" + strings.Repeat(",1", extra) + "] ")
				} else {
					sb.WriteString("R[1] ")
				}
			}
			lex := ast.NewLexer(strings.NewReader(sb.String()))
			if ast.Parse(lex) != 0 || lex.Result == nil {
				continue
			}
			if countNodes(lex.Result) == n {
				treeCache[n] = lex.Result
				return lex.Result, true
			}
		}
	}
	treeCache[n] = nil
	return nil, false
}

var (
	treeCache = map[int]ast.Node{}
	countHung bool // an ungated run over a small tree did not come back
)

func countNodes(tree ast.Node) int {
	done := make(chan int, 1)
	go func() {
		c := 0
		for range ast.NewIterVisitor().All(tree) {
			c++
		}
		done <- c
	}()
	select {
	case c := <-done:
		return c
	case <-time.After(gateWait):
		countHung = true
		return -1
	}
}

const gateWait = 5 * time.Second

var gateTimeouts int

var gateDead bool // the hook is never called: the remaining behaviours are not waited for

func replayBehaviour(states []mstate, n, stopAt int) rec {
	r := rec{"kind": "gate", "n": n, "stopAt": stopAt, "steps": 0, "diff": "", "finished": false, "returnedInModel": false, "realReturned": false, "realGot": 0, "cap": 0}
	tree, ok := treeWithNodes(n)
	if !ok {
		r["diff"] = "harness: no tree with that many nodes"
		return r
	}
	arrive := make(chan int)
	release := make(chan struct{})
	free := make(chan struct{}) // closed at clean-up: the gate stands open
	sends := 0
	ast.VerifBeforeSend = func(ast.Node) {
		select {
		case <-free:
			return
		default:
		}
		sends++
		select {
		case arrive <- sends:
		case <-free:
			return
		}
		select {
		case <-release:
		case <-free:
		}
	}
	defer func() { ast.VerifBeforeSend = nil }()

	iv := ast.NewIterVisitor()
	seq := iv.All(tree)
	r["cap"] = iv.VerifChanCap()
	yieldArrive := make(chan int)
	yieldRelease := make(chan bool)
	consDone := make(chan struct{})
	seen := 0
	startConsumer := func() {
		go func() {
			defer close(consDone)
			for range seq {
				seen++
				select {
				case yieldArrive <- seen:
				case <-free:
					return
				}
				select {
				case cont := <-yieldRelease:
					if !cont {
						return
					}
				case <-free:
					return
				}
			}
		}()
	}
	waitInt := func(c chan int) (int, bool) {
		select {
		case v := <-c:
			return v, true
		case <-time.After(gateWait):
			if gateTimeouts++; gateTimeouts >= 3 {
				gateDead = true // not worth five seconds a behaviour any more
			}
			return 0, false
		}
	}
	// the producer reaches the gate of its first send
	if gateDead {
		r["diff"] = "the producer never reaches the gate (the iterator does not send through IterVisitor.send any more?)"
		close(free)
		return r
	}
	prodAt, okp := waitInt(arrive)
	if !okp {
		gateDead = true
		r["diff"] = "the producer never reached its first send"
		close(free)
		return r
	}
	released := 0 // sends let through
	consStarted, consAtYield, consFinished, stoppedReal := false, false, false, false
	fail := func(i int, what string) {
		if r["diff"] == "" {
			r["diff"] = fmt.Sprintf("step %d (%s): %s", i, states[i].action, what)
		}
	}
	for i := 1; i < len(states) && r["diff"] == ""; i++ {
		prev, st := states[i-1], states[i]
		// which action it was is read off the states (the name TLC prints is that of the enclosing disjunct)
		kind := ""
		switch {
		case st.sent == prev.sent+1:
			kind = "P"
		case st.got == prev.got+1 || (st.pc2 == "D" && prev.pc2 == "C"):
			kind = "C"
		case st.ret && !prev.ret:
			kind = "R"
		}
		switch kind {
		case "P":
			if prodAt != released+1 {
				fail(i, fmt.Sprintf("the producer stands before send %d, the model sends %d", prodAt, released+1))
				break
			}
			release <- struct{}{}
			released++
			if released < n {
				v, ok := waitInt(arrive)
				if !ok {
					fail(i, "the producer did not come back to the gate (blocked on a full channel?)")
					break
				}
				prodAt = v
			} else {
				// the last send: no further gate; wait until the node is in the channel or with the consumer
				deadline := time.Now().Add(gateWait)
				for !stoppedReal && iv.VerifChanLen()+seen < released && time.Now().Before(deadline) {
					time.Sleep(50 * time.Microsecond)
				}
			}
		case "C":
			switch {
			case st.got == prev.got+1: // a node is received and handed to the loop body
				if !consStarted {
					startConsumer()
					consStarted = true
				} else if consAtYield {
					yieldRelease <- true
					consAtYield = false
				}
				v, ok := waitInt(yieldArrive)
				if !ok {
					fail(i, "the loop body was not called")
					break
				}
				consAtYield = true
				if v != st.got {
					fail(i, fmt.Sprintf("the loop body has seen %d nodes, the model %d", v, st.got))
				}
			case st.pc2 == "D" && prev.pc2 == "C": // the loop ends: the body said stop, or the channel is closed and empty
				if !consStarted {
					startConsumer()
					consStarted = true
				} else if consAtYield {
					yieldRelease <- !prev.stopped
					consAtYield = false
					stoppedReal = prev.stopped
				}
			}
		case "R":
			select {
			case <-consDone:
				consFinished = true
			case <-time.After(gateWait):
				fail(i, "the iterator did not return")
			}
		}
		r["steps"] = i
		if r["diff"] != "" {
			break
		}
		// the abstract state after the action
		if released != st.sent {
			fail(i, fmt.Sprintf("%d nodes sent, the model %d", released, st.sent))
		}
		if !stoppedReal && !st.stopped && st.pc2 == "C" {
			if l := iv.VerifChanLen(); l != st.chLen {
				fail(i, fmt.Sprintf("%d nodes in the channel, the model %d", l, st.chLen))
			}
		}
		if st.pc2 == "C" && seen != st.got {
			fail(i, fmt.Sprintf("the loop body has seen %d nodes, the model %d", seen, st.got))
		}
	}
	last := states[len(states)-1]
	// "finished" = the replay itself ran to the end of a behaviour in which the iterator returns; a replay that broke off at a
	// difference says nothing about how the real iterator would have ended (the what-level then rests on the plain runs)
	r["finished"] = last.ret && r["diff"] == ""
	r["returnedInModel"] = last.ret
	r["realReturned"] = consFinished
	// clean up: open the gate, let everything run to its end
	close(free)
	if consStarted && !consFinished {
		select {
		case <-consDone:
		case <-time.After(gateWait):
		}
	} else if !consStarted {
		for range seq {
		}
	}
	r["realGot"] = seen
	return r
}

// plainRun: the what-level on its own, without any gate: the loop body stops at node stopAt (never when 0 or beyond n);
// the iterator returns and the body has seen exactly the nodes up to there.
func plainRun(n, stopAt int) rec {
	r := rec{"kind": "plain", "n": n, "stopAt": stopAt, "realReturned": false, "realGot": 0}
	tree, ok := treeWithNodes(n)
	if !ok {
		if countHung {
			return r // the iterator does not come back from a plain walk: not returned
		}
		return rec{"kind": "skip"}
	}
	done := make(chan int, 1)
	go func() {
		seen := 0
		for range ast.NewIterVisitor().All(tree) {
			seen++
			if seen == stopAt {
				break
			}
		}
		done <- seen
	}()
	select {
	case v := <-done:
		r["realReturned"], r["realGot"] = true, v
	case <-time.After(gateWait):
	}
	return r
}

// fullProbe: the model's send (action P) is not enabled while the channel is full. The real producer is let through its
// gate cap times without a consumer, then once more: that send must not go through (the after-send hook must stay
// silent) until a consumer takes a node. A send that goes through a full channel is a difference however slow the machine
// is; a slow machine can only make a correct producer look even more blocked.
func fullProbe(n int) rec {
	r := rec{"kind": "fullprobe", "n": n, "cap": 0, "passedFull": false, "allSeen": false, "inOrder": false, "note": ""}
	tree, ok := treeWithNodes(n)
	if !ok {
		r["note"] = "harness: no tree with that many nodes"
		return r
	}
	arrive := make(chan struct{})
	release := make(chan struct{})
	after := make(chan struct{}, n+8)
	free := make(chan struct{})
	ast.VerifBeforeSend = func(ast.Node) {
		select {
		case arrive <- struct{}{}:
		case <-free:
			return
		}
		select {
		case <-release:
		case <-free:
		}
	}
	ast.VerifAfterSend = func(ast.Node) {
		select {
		case after <- struct{}{}:
		default:
		}
	}
	defer func() { ast.VerifBeforeSend, ast.VerifAfterSend = nil, nil }()
	iv := ast.NewIterVisitor()
	seq := iv.All(tree)
	capN := iv.VerifChanCap()
	r["cap"] = capN
	if n <= capN+1 {
		r["note"] = "harness: the tree does not overfill the channel"
		close(free)
		for range seq {
		}
		return r
	}
	for i := 0; i < capN; i++ { // fill the channel
		select {
		case <-arrive:
		case <-time.After(gateWait):
			r["note"] = "the producer never reached the gate"
			close(free)
			return r
		}
		release <- struct{}{}
		select {
		case <-after:
		case <-time.After(gateWait):
			r["note"] = fmt.Sprintf("send %d did not go through although the channel had room", i+1)
			close(free)
			return r
		}
	}
	// one more: the channel is full
	select {
	case <-arrive:
	case <-time.After(gateWait):
		r["note"] = "the producer did not come back to the gate"
		close(free)
		return r
	}
	release <- struct{}{}
	select {
	case <-after:
		r["passedFull"] = true
	case <-time.After(150 * time.Millisecond):
	}
	// open the gate and consume everything: all nodes, in document order (the type sequence of a fresh plain walk)
	close(free)
	want := []string{}
	ast.VerifBeforeSend, ast.VerifAfterSend = nil, nil
	for x := range ast.NewIterVisitor().All(tree) {
		want = append(want, fmt.Sprintf("%T", x))
	}
	got := []string{}
	for x := range seq {
		got = append(got, fmt.Sprintf("%T", x))
	}
	r["allSeen"] = len(got) == n
	r["inOrder"] = len(got) <= len(want) && strings.Join(got, ",") == strings.Join(want[:len(got)], ",")
	return r
}

// aux = "<directory of behaviours>:<N>:<StopAt>[;<directory>:<N>:<StopAt>...]"
func gateMode(out, aux string) {
	recs := []any{}
	for _, part := range strings.Split(aux, ";") {
		f3 := strings.Split(part, ":")
		if len(f3) != 3 {
			continue
		}
		n, _ := strconv.Atoi(f3[1])
		stop, _ := strconv.Atoi(f3[2])
		recs = append(recs, plainRun(n, stop))
		files, _ := filepath.Glob(filepath.Join(f3[0], "*"))
		sort.Strings(files)
		for _, f := range files {
			states, err := parseBehaviour(f)
			if err != nil || len(states) < 2 {
				continue
			}
			r := replayBehaviour(states, n, stop)
			r["file"] = filepath.Base(f)
			recs = append(recs, r)
		}
	}
	for _, n := range []int{103, 130, 400} {
		recs = append(recs, fullProbe(n))
	}
	writeGate(out, recs)
}

func writeGate(out string, recs []any) {
	fo, _ := os.Create(filepath.Join(out, "records.ndjson"))
	enc := json.NewEncoder(fo)
	diffs := 0
	for _, r := range recs {
		if d, ok := r.(rec)["diff"]; ok && d != "" {
			diffs++
		}
		_ = enc.Encode(r)
	}
	fo.Close()
	samples := recs
	if len(samples) > 1 {
		samples = samples[:1]
	}
	meta := map[string]any{"evaluations": len(recs), "distinct_nontrivial": len(recs), "traces": len(recs), "exhaustive": false,
		"rule": "behaviours written by TLC's simulator for IterVisitor.tla (free interleavings; and interleavings in which the producer first fills the channel of capacity 100) replayed on the real " +
			"ast.IterVisitor.All: producer held before every send by the verif gate hook, consumer held in its loop body; channel length, nodes sent and nodes seen compared after every action",
		"samples": samples, "files": []string{"records.ndjson"}, "extra": map[string]any{"differences": diffs}}
	b, _ := json.MarshalIndent(meta, "", " ")
	_ = os.WriteFile(filepath.Join(out, "meta.json"), b, 0o644)
}
