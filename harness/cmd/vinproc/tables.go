//go:build verif

package main

import (
	"bufio"
	"encoding/json"
	"fmt"
	"os"
	"path/filepath"
	"sort"

	"github.com/berquerant/crd/note"
	"github.com/berquerant/crd/op"
)

// circleMode: op.KeyConversionChain for every supported key and EVERY chain up to maxLen (the property's own
// exhaustive domain is 6), in-process.
func circleMode(tier, out string) {
	maxLen := 5
	if tier == "thorough" {
		maxLen = 6
	}
	convOf := map[byte]op.KeyConversion{'p': op.ParallelKey, 'r': op.RelativeKey, 'd': op.DominantKey, 's': op.SubDominantKey}
	chains := []string{}
	cur := []string{""}
	for i := 0; i < maxLen; i++ {
		next := []string{}
		for _, p := range cur {
			for _, c := range "prds" {
				next = append(next, p+string(c))
			}
		}
		chains = append(chains, next...)
		cur = next
	}
	f, _ := os.Create(filepath.Join(out, "records.ndjson"))
	bw := bufio.NewWriterSize(f, 1<<20)
	circle := op.NewCircleOfFifth()
	n := 0
	for _, k := range keyNames {
		key, err := op.ParseKey(k)
		if err != nil {
			continue
		}
		for _, ch := range chains {
			cc := make([]op.KeyConversion, len(ch))
			steps := make([]string, len(ch))
			for i := range ch {
				cc[i] = convOf[ch[i]]
				steps[i] = string(ch[i])
			}
			res, err := op.KeyConversionChain(cc).Convert(circle, key)
			outs := [][]int{}
			if err == nil {
				names := []string{}
				for x := range res.Keys().All() {
					names = append(names, x.String())
				}
				sort.Strings(names)
				for _, s := range names {
					outs = append(outs, codes(s))
				}
			}
			b, _ := json.Marshal(rec{"kind": "chain", "key": codes(k), "chain": steps, "terminated": true, "ok": err == nil, "out": outs,
				"stdoutLen": 0, "stderrLen": 0})
			bw.Write(b)
			bw.WriteByte('\n')
			n++
		}
	}
	bw.Flush()
	f.Close()
	meta := map[string]any{"evaluations": n, "distinct_nontrivial": n, "traces": n, "exhaustive": true,
		"rule":    fmt.Sprintf("28 keys x EVERY chain over {p,r,d,s} of length 1..%d through op.KeyConversionChain in-process; all distinct", maxLen),
		"samples": []any{map[string]any{"key": "F#m", "chain": "dsrp"}}, "files": []string{"records.ndjson"}}
	b, _ := json.MarshalIndent(meta, "", " ")
	_ = os.WriteFile(filepath.Join(out, "meta.json"), b, 0o644)
}

// degreeMode: the note.Degree API for numbers 1..64 (and 0) x all 7 qualities: existence, size, printed notation, parse-back.
func degreeMode(out string) {
	names := []struct {
		n note.DegreeName
		q string
	}{{note.MajorDegree, "M"}, {note.MinorDegree, "m"}, {note.PerfectDegree, "P"}, {note.AugmentedDegree, "A"},
		{note.DiminishedDegree, "d"}, {note.DoublyAugmentedDegree, "AA"}, {note.DoublyDiminishedDegree, "dd"}}
	f, _ := os.Create(filepath.Join(out, "records.ndjson"))
	bw := bufio.NewWriter(f)
	enc := json.NewEncoder(bw)
	n := 0
	for v := 0; v <= 64; v++ {
		for _, nm := range names {
			d, ok := note.NewDegree(uint(v), nm.n)
			r := rec{"kind": "degree", "n": v, "q": nm.q, "exists": ok, "semitone": 0, "printed": []int{}, "parsedOk": false, "parsedN": 0, "parsedSemitone": 0}
			if ok {
				s, _ := d.Semitone()
				r["semitone"] = int(s)
				str := d.String()
				r["printed"] = codes(str)
				if p, err := note.ParseDegree(str); err == nil {
					ps, _ := p.Semitone()
					r["parsedOk"], r["parsedN"], r["parsedSemitone"] = true, int(p.Value), int(ps)
					r["parsedSame"] = p == d
				}
			}
			_ = enc.Encode(r)
			n++
		}
	}
	bw.Flush()
	f.Close()
	meta := map[string]any{"evaluations": n, "distinct_nontrivial": n, "traces": n, "exhaustive": true,
		"rule":    "note.NewDegree / Semitone / String / ParseDegree in-process for numbers 0..64 x all 7 qualities (valid and impossible combinations)",
		"samples": []any{map[string]any{"n": 4, "q": "M", "expect": "rejected"}}, "files": []string{"records.ndjson"}}
	b, _ := json.MarshalIndent(meta, "", " ")
	_ = os.WriteFile(filepath.Join(out, "meta.json"), b, 0o644)
}
