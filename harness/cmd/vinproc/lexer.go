//go:build verif

package main

import (
	"bufio"
	"encoding/json"
	"fmt"
	"math/rand"
	"os"
	"path/filepath"
	"strings"
	"time"

	"github.com/berquerant/crd/input/ast"
	"github.com/berquerant/ybase"
)

var lexTokenName = map[int]string{ast.SYLLABLE: "SYLLABLE", ast.SLASH: "SLASH", ast.LBRA: "LBRA", ast.RBRA: "RBRA", ast.COMMA: "COMMA",
	ast.SEMICOLON: "SEMICOLON", ast.SHARP: "SHARP", ast.FLAT: "FLAT", ast.NUMBER: "NUMBER", ast.SYMBOL: "SYMBOL", ast.REST: "REST",
	ast.UNDERSCORE: "UNDERSCORE", ast.LCBRA: "LCBRA", ast.RCBRA: "RCBRA", ast.EQUAL: "EQUAL", ast.METADATA: "METADATA"}

func posOf(p ybase.Pos) []int { return []int{p.Line(), p.Column(), p.Offset()} }

// lexOne pulls every token of text through the real lexer; false when it does not return in time
func lexOne(text string) (rec, bool) {
	type result struct{ r rec }
	ch := make(chan result, 1)
	go func() {
		lx := ast.NewLexer(strings.NewReader(text))
		toks := []rec{}
		for i := 0; i < 100000; i++ {
			var tok ybase.Token
			t := lx.DoLex(func(x ybase.Token) { tok = x })
			if t == ybase.EOF || tok == nil {
				break
			}
			toks = append(toks, rec{"t": lexTokenName[t], "v": codes(tok.Value()), "start": posOf(tok.Start()), "end": posOf(tok.End()),
				"sym": lx.VerifExpectSymbol(), "meta": lx.VerifExpectMetadata()})
		}
		ch <- result{rec{"kind": "lex", "s": codes(text), "toks": toks, "lexErr": lx.Err() != nil, "terminated": true}}
	}()
	select {
	case r := <-ch:
		return r.r, true
	case <-time.After(3 * time.Second):
		return rec{"kind": "lex", "s": codes(text), "toks": []rec{}, "lexErr": false, "terminated": false}, false
	}
}

func lexerMode(seed int64, tier, out string) {
	alphabet := []rune("CR/[]{}=,#b_1;\n mG2♭")
	maxLen, nrand := 3, 3000
	if tier == "thorough" {
		maxLen, nrand = 4, 40000
	}
	texts := []string{""}
	cur := []string{""}
	for i := 0; i < maxLen; i++ {
		next := []string{}
		for _, p := range cur {
			for _, r := range alphabet {
				next = append(next, p+string(r))
			}
		}
		texts = append(texts, next...)
		cur = next
	}
	rng := rand.New(rand.NewSource(seed))
	frags := []string{"C", "Bb", "F#", "3", "5b", "m7", "_7", "_", "/", "[1]", "[1,1/2]", "[", "]", "{key=Am}", "{txt=hi there ,bpm=90}", "{", "}", "=", ",", " ", "\n", "\t",
		";c\n", "; x", "R", "♯", "♭", "é", "0012", "sus4", "x]y", "\n\n"}
	for i := 0; i < nrand; i++ {
		var sb strings.Builder
		for j := 0; j < 1+rng.Intn(14); j++ {
			sb.WriteString(frags[rng.Intn(len(frags))])
		}
		texts = append(texts, sb.String())
	}
	f, _ := os.Create(filepath.Join(out, "records.ndjson"))
	bw := bufio.NewWriterSize(f, 1<<20)
	enc := json.NewEncoder(bw)
	n, ntok := 0, 0
	var sample any
	for _, t := range texts {
		r, ok := lexOne(t)
		_ = enc.Encode(r)
		n++
		ntok += len(r["toks"].([]rec))
		if n == 400 {
			sample = r
		}
		if !ok {
			break // a spinning goroutine is left behind: stop here, the record says terminated=false
		}
	}
	bw.Flush()
	f.Close()
	meta := map[string]any{"evaluations": n, "distinct_nontrivial": n, "traces": n, "exhaustive": false,
		"rule":    fmt.Sprintf("ALL texts over 20 representative runes up to length %d plus %d seeded concatenations of chord-text fragments, pulled token by token through the real ast.Lexer in-process; after every token: type, text, source span, and the two mode flags (verif hooks)", maxLen, nrand),
		"samples": []any{sample}, "files": []string{"records.ndjson"}, "extra": map[string]any{"tokens": ntok}}
	b, _ := json.MarshalIndent(meta, "", " ")
	_ = os.WriteFile(filepath.Join(out, "meta.json"), b, 0o644)
}
