module verif/harness

go 1.24.0

require (
	github.com/berquerant/crd v0.0.0
	github.com/berquerant/ybase v0.7.0
	gopkg.in/yaml.v3 v3.0.1
)

require gitlab.com/gomidi/midi/v2 v2.2.19 // indirect

replace github.com/berquerant/crd => /repo
