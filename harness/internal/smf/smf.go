// Package smf is a small, strict reader of Standard MIDI Files written for the
// verification harness. It shares no code with gomidi (the library crd writes
// with). It is a projection (bytes -> events); SMF.tla re-derives the same
// event list from the raw bytes in the C08 check, so this reader is itself
// bound to the specification.
package smf

import (
	"fmt"
)

// Event is one decoded track event.
type Event struct {
	Track int   `json:"trk"`
	Tick  int   `json:"tick"`  // absolute tick inside its track
	Delta int   `json:"delta"` // as written
	Kind  int   `json:"kind"`  // status high nibble 8..14 for channel messages, 255 meta, 240/247 sysex
	Ch    int   `json:"ch"`
	A     int   `json:"a"` // first data byte, or meta type
	B     int   `json:"b"` // second data byte (or -1 / 0 when absent)
	Data  []int `json:"data"`
}

// File is a decoded SMF.
type File struct {
	Format   int     `json:"format"`
	NTracks  int     `json:"ntracks"`
	Division int     `json:"division"`
	Events   []Event `json:"events"`
	TrackLen []int   `json:"trackLen"` // absolute tick of the last event per track
	Err      string  `json:"err"`
}

const (
	KindOff  = 8
	KindOn   = 9
	KindMeta = 255
)

// Meta types used by crd.
const (
	MetaText   = 1
	MetaName   = 3
	MetaInstr  = 4
	MetaLyric  = 5
	MetaMarker = 6
	MetaEOT    = 0x2f
	MetaTempo  = 0x51
	MetaMeter  = 0x58
	MetaKey    = 0x59
)

// Parse decodes b strictly. On any structural problem Err is set and the
// events decoded so far are kept.
func Parse(b []byte) (f File) {
	f.Events = []Event{}
	f.TrackLen = []int{}
	fail := func(format string, a ...any) File {
		f.Err = fmt.Sprintf(format, a...)
		return f
	}
	if len(b) < 14 || string(b[0:4]) != "MThd" {
		return fail("no MThd header")
	}
	if be32(b[4:8]) != 6 {
		return fail("header length %d", be32(b[4:8]))
	}
	f.Format = be16(b[8:10])
	f.NTracks = be16(b[10:12])
	f.Division = be16(b[12:14])
	if f.Division >= 0x8000 {
		return fail("SMPTE division")
	}
	p := 14
	for t := 0; t < f.NTracks; t++ {
		if p+8 > len(b) || string(b[p:p+4]) != "MTrk" {
			return fail("track %d: no MTrk at %d", t, p)
		}
		n := be32(b[p+4 : p+8])
		p += 8
		end := p + n
		if end > len(b) {
			return fail("track %d: chunk length %d exceeds file", t, n)
		}
		tick := 0
		status := 0
		eot := false
		for p < end {
			if eot {
				return fail("track %d: event after end-of-track", t)
			}
			d, k, ok := vlq(b[p:end])
			if !ok {
				return fail("track %d: bad delta at %d", t, p)
			}
			p += k
			tick += d
			if p >= end {
				return fail("track %d: truncated after delta", t)
			}
			s := int(b[p])
			ev := Event{Track: t, Tick: tick, Delta: d, Data: []int{}}
			switch {
			case s == 0xff:
				if p+2 > end {
					return fail("track %d: truncated meta", t)
				}
				mt := int(b[p+1])
				if mt >= 128 {
					return fail("track %d: meta type %d", t, mt)
				}
				l, k, ok := vlq(b[p+2 : end])
				if !ok || p+2+k+l > end {
					return fail("track %d: bad meta length", t)
				}
				ev.Kind, ev.A = KindMeta, mt
				for _, x := range b[p+2+k : p+2+k+l] {
					ev.Data = append(ev.Data, int(x))
				}
				p += 2 + k + l
				if mt == MetaEOT {
					eot = true
				}
				status = 0
			case s == 0xf0 || s == 0xf7:
				l, k, ok := vlq(b[p+1 : end])
				if !ok || p+1+k+l > end {
					return fail("track %d: bad sysex length", t)
				}
				ev.Kind = s
				for _, x := range b[p+1+k : p+1+k+l] {
					ev.Data = append(ev.Data, int(x))
				}
				p += 1 + k + l
				status = 0
			case s >= 0xf0:
				return fail("track %d: system message %#x in file", t, s)
			default:
				if s >= 0x80 {
					status = s
					p++
				} else if status == 0 {
					return fail("track %d: data byte %#x without running status at %d", t, s, p)
				}
				need := 2
				if status>>4 == 0xc || status>>4 == 0xd {
					need = 1
				}
				if p+need > end {
					return fail("track %d: truncated channel message", t)
				}
				ev.Kind, ev.Ch = status>>4, status&15
				ev.A = int(b[p])
				if need == 2 {
					ev.B = int(b[p+1])
				}
				if ev.A >= 128 || ev.B >= 128 {
					return fail("track %d: data byte >= 128 at %d", t, p)
				}
				p += need
			}
			f.Events = append(f.Events, ev)
		}
		if !eot {
			return fail("track %d: no end-of-track", t)
		}
		f.TrackLen = append(f.TrackLen, tick)
	}
	if p != len(b) {
		return fail("%d trailing bytes", len(b)-p)
	}
	return f
}

func be16(b []byte) int { return int(b[0])<<8 | int(b[1]) }
func be32(b []byte) int { return int(b[0])<<24 | int(b[1])<<16 | int(b[2])<<8 | int(b[3]) }

func vlq(b []byte) (v, n int, ok bool) {
	for n < len(b) && n < 4 {
		v = v<<7 | int(b[n]&0x7f)
		n++
		if b[n-1] < 0x80 {
			return v, n, true
		}
	}
	return 0, 0, false
}
