// Package run executes the real crd binary under a watchdog and projects the
// outcome of one run into a plain record. It never judges anything.
package run

import (
	"bytes"
	"context"
	"errors"
	"io"
	"os"
	"os/exec"
	"regexp"
	"runtime"
	"sync"
	"syscall"
	"time"
)

// Result is what one process run looked like from the outside.
type Result struct {
	Exit     int               `json:"exit"`     // exit status, -1 when killed by a signal / watchdog
	Stdout   []byte            `json:"-"`        // raw bytes
	Stderr   []byte            `json:"-"`        // raw bytes
	TimedOut bool              `json:"timedOut"` // the watchdog had to kill it
	Signal   string            `json:"signal"`   // non-empty when the process died from a signal (other than our kill)
	Panic    bool              `json:"panic"`    // stderr carries a Go panic / fatal error marker
	WallMs   int64             `json:"wallMs"`
	FifoOut  map[string][]byte `json:"-"`
}

// Cmd describes one invocation.
type Cmd struct {
	Args    []string
	Stdin   []byte
	Env     []string // extra environment (KEY=VALUE)
	Dir     string
	Timeout time.Duration
	// how Stdin reaches the process: "" = a pipe fed at once; "file" = redirected from a regular file (`< file`);
	// "slow" = a pipe fed in small blocks with pauses (a slow producer); "fileoff" = a regular file positioned behind a first line
	StdinMode string
	// Fifos are named pipes (path -> content) created before the run and fed by a writer; crd gets the path as an argument,
	// as with process substitution `<(...)`
	Fifos map[string][]byte
	// OutFifos are named pipes created before the run and drained by a reader; crd gets the path as its -o target
	// (what it wrote there comes back in Result.FifoOut)
	OutFifos []string
	// StdoutPath, when set, is opened for writing and given to crd as its standard output (e.g. /dev/full: a device that
	// opens but refuses every write); Result.Stdout stays empty
	StdoutPath string
}

// A crash of the Go runtime is recognised by its shape, not by words a diagnostic may well contain: the stack header
// `goroutine N [running]:` at the start of a line, or `panic: ` / `fatal error: ` at the start of a line together with the
// runtime's exit status 2.
var (
	reGoroutine = regexp.MustCompile(`(?m)^goroutine \d+ \[[^\]\n]*\]:`)
	rePanicLine = regexp.MustCompile(`(?m)^(panic|fatal error): `)
)

// Run runs bin with c and waits (at most c.Timeout, default 10 s).
func Run(bin string, c Cmd) Result {
	to := c.Timeout
	if to == 0 {
		to = 10 * time.Second
	}
	ctx, cancel := context.WithTimeout(context.Background(), to)
	defer cancel()
	cmd := exec.CommandContext(ctx, bin, c.Args...)
	switch c.StdinMode {
	case "file":
		if f, err := os.CreateTemp("", "crdverif-stdin-*"); err == nil {
			_, _ = f.Write(c.Stdin)
			_, _ = f.Seek(0, 0)
			cmd.Stdin = f
			defer func() { f.Close(); os.Remove(f.Name()) }()
		} else {
			cmd.Stdin = bytes.NewReader(c.Stdin)
		}
	case "fileoff": // `{ read line; crd ...; } < file`: standard input is a file whose first line was consumed already
		if f, err := os.CreateTemp("", "crdverif-stdin-*"); err == nil {
			prefix := []byte("a first line that somebody else has read: C[1] D[\n")
			_, _ = f.Write(prefix)
			_, _ = f.Write(c.Stdin)
			_, _ = f.Seek(int64(len(prefix)), 0)
			cmd.Stdin = f
			defer func() { f.Close(); os.Remove(f.Name()) }()
		} else {
			cmd.Stdin = bytes.NewReader(c.Stdin)
		}
	case "slow":
		pr, pw := io.Pipe()
		cmd.Stdin = pr
		go func() {
			b := c.Stdin
			for len(b) > 0 {
				n := 700
				if n > len(b) {
					n = len(b)
				}
				if _, err := pw.Write(b[:n]); err != nil {
					break
				}
				b = b[n:]
				time.Sleep(3 * time.Millisecond)
			}
			pw.Close()
		}()
	default:
		cmd.Stdin = bytes.NewReader(c.Stdin)
	}
	for path, content := range c.Fifos {
		_ = os.Remove(path)
		if err := syscall.Mkfifo(path, 0o600); err == nil {
			go func(path string, content []byte) {
				// opening blocks until the reader opens; if crd never opens it, the cleanup below unblocks us
				f, err := os.OpenFile(path, os.O_WRONLY, 0)
				if err != nil {
					return
				}
				_, _ = f.Write(content)
				f.Close()
			}(path, content)
			defer func(path string) {
				// unblock a writer that is still waiting for a reader, then remove
				if f, err := os.OpenFile(path, os.O_RDONLY|syscall.O_NONBLOCK, 0); err == nil {
					f.Close()
				}
				os.Remove(path)
			}(path)
		}
	}
	var fifoMu sync.Mutex
	var fifoWG sync.WaitGroup
	fifoOut := map[string][]byte{}
	var keepAlive []*os.File
	for _, path := range c.OutFifos {
		_ = os.Remove(path)
		if err := syscall.Mkfifo(path, 0o600); err != nil {
			continue
		}
		// both ends are open before crd starts (the read end first, without blocking; then a write end of our own, so that
		// the reader sees no end of file before crd has come and gone): nothing crd writes can be lost
		rd, err := os.OpenFile(path, os.O_RDONLY|syscall.O_NONBLOCK, 0)
		if err != nil {
			continue
		}
		wr, err := os.OpenFile(path, os.O_WRONLY, 0)
		if err != nil {
			rd.Close()
			continue
		}
		keepAlive = append(keepAlive, wr)
		fifoWG.Add(1)
		go func(path string, rd *os.File) {
			defer fifoWG.Done()
			b, _ := io.ReadAll(rd)
			rd.Close()
			fifoMu.Lock()
			fifoOut[path] = b
			fifoMu.Unlock()
		}(path, rd)
	}
	var so, se bytes.Buffer
	cmd.Stdout = &limitWriter{w: &so, n: 64 << 20}
	if c.StdoutPath != "" {
		if f, err := os.OpenFile(c.StdoutPath, os.O_WRONLY, 0); err == nil {
			cmd.Stdout = f
			defer f.Close()
		}
	}
	cmd.Stderr = &limitWriter{w: &se, n: 8 << 20}
	cmd.Env = append(os.Environ(), c.Env...)
	cmd.Dir = c.Dir
	cmd.WaitDelay = 2 * time.Second
	start := time.Now()
	err := cmd.Run()
	for _, f := range keepAlive {
		f.Close() // crd is gone: the readers reach the end of what it wrote
	}
	fifoWG.Wait()
	for _, path := range c.OutFifos {
		os.Remove(path)
	}
	r := Result{Stdout: so.Bytes(), Stderr: se.Bytes(), WallMs: time.Since(start).Milliseconds(), FifoOut: fifoOut}
	if ctx.Err() != nil {
		r.TimedOut = true
		r.Exit = -1
	} else if err != nil {
		var ee *exec.ExitError
		if errors.As(err, &ee) {
			r.Exit = ee.ExitCode()
			if ws, ok := ee.Sys().(syscall.WaitStatus); ok && ws.Signaled() {
				r.Signal = ws.Signal().String()
				r.Exit = -1
			}
		} else {
			r.Exit = -2 // could not start: infrastructure problem
			r.Stderr = append(r.Stderr, []byte("\nverif: cannot run: "+err.Error())...)
		}
	}
	if reGoroutine.Match(r.Stderr) || (r.Exit == 2 && rePanicLine.Match(r.Stderr)) {
		r.Panic = true
	}
	// a panic inside a String / Error method is recovered by fmt and printed in place of the value: in a result that is
	// garbage passed on as data (inside a diagnostic of a run that fails properly it is only an ugly message)
	if bytes.Contains(r.Stdout, []byte("(PANIC=")) {
		r.Panic = true
	}
	return r
}

type limitWriter struct {
	w *bytes.Buffer
	n int
}

func (l *limitWriter) Write(p []byte) (int, error) {
	if l.w.Len() < l.n {
		k := len(p)
		if l.w.Len()+k > l.n {
			k = l.n - l.w.Len()
		}
		l.w.Write(p[:k])
	}
	return len(p), nil
}

// ParMap applies f to every item on up to `workers` goroutines, keeping order.
func ParMap[T, R any](items []T, workers int, f func(int, T) R) []R {
	if workers <= 0 {
		workers = runtime.NumCPU()
	}
	out := make([]R, len(items))
	var wg sync.WaitGroup
	ch := make(chan int)
	for w := 0; w < workers; w++ {
		wg.Add(1)
		go func() {
			defer wg.Done()
			for i := range ch {
				out[i] = f(i, items[i])
			}
		}()
	}
	for i := range items {
		ch <- i
	}
	close(ch)
	wg.Wait()
	return out
}
