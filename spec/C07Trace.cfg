SPECIFICATION Spec
INVARIANT C07Inv
CHECK_DEADLOCK FALSE
