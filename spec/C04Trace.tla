------------------------------ MODULE C04Trace ------------------------------
(***************************************************************************)
(* C04 -- the accepted chord language is exactly the documented grammar    *)
(* and the tree is faithful.  One state per text given to the real         *)
(* `crd text parse`.  The oracle is Lexer.tla (documented tokenisation)    *)
(* composed with ChordLang.tla (the language; model-checked equal to the   *)
(* productions of chords.y by ChordLangMC/Grammar).                         *)
(***************************************************************************)
EXTENDS Lexer, ChordLang, Json, TLC
Recs == ndJsonDeserialize("records.ndjson")
VARIABLE l
Init == l \in 1..Len(Recs)
Next == UNCHANGED l
Spec == Init /\ [][Next]_l
R == Recs[l]
Expected(s) == LET lx == Lex(s) IN IF lx.err THEN [ok |-> FALSE, items |-> <<>>] ELSE Parse(lx.toks)
\* a generator claim ("this text renders these tokens") is re-derived by the spec; a wrong claim is a bad test input
DriverClaim == (R.kind = "text" /\ R.hasClaim) => LET lx == Lex(R.s) IN ~lx.err /\ TokTypes(lx.toks) = R.claim
\* (metadata names and values are compared without the blanks around them, see Lexer!Trim)
NormMeta(m) == [j \in 1..Len(m) |-> <<Trim(m[j][1]), Trim(m[j][2])>>]
NormItems(items) == [i \in 1..Len(items) |-> [items[i] EXCEPT !.meta = NormMeta(@)]]
\* Texts with one of the characters the statements do not name (Lexer!ExoticChars: the other Unicode blanks, invisible
\* characters, digits of other scripts).  What such a character IS is open -- a blank (the pinned code's reading of most of
\* them), an ordinary character of a symbol or a text, something skipped -- but under every reading the rest of C04 holds:
\* the text is a sentence or it is refused, the tree lists what was written, and no suffix is silently dropped.  So a text
\* with ONE such character (however often) is judged under three readings: the model's own, the character as an ordinary
\* letter (233), the character as a space -- or refused outright; the observation must be what one of them says.  (With several different such
\* characters the readings multiply: termination only.)
ExoticDigits == (65296..65305) \cup (2406..2415) \cup (1632..1641)
ExoSet(s) == {s[i] : i \in {j \in 1..Len(s) : s[j] \in ExoticChars}}
Sub(s, c, d) == [i \in 1..Len(s) |-> IF s[i] = c THEN d ELSE s[i]]
SubItem(it, c, d) == [it EXCEPT !.root = Sub(@, c, d), !.acc = Sub(@, c, d), !.sym = Sub(@, c, d), !.broot = Sub(@, c, d), !.bacc = Sub(@, c, d),
                                !.vals = [j \in 1..Len(@) |-> <<Sub(@[j][1], c, d), Sub(@[j][2], c, d)>>],
                                !.meta = [j \in 1..Len(@) |-> <<Sub(@[j][1], c, d), Sub(@[j][2], c, d)>>]]
SubItems(items, c, d) == [i \in 1..Len(items) |-> SubItem(items[i], c, d)]
Reading(s, items, accepted, c, d) ==          \* the observation is what the text says with c read as d
  LET e == Expected(Sub(s, c, d)) IN
  accepted = e.ok /\ (accepted => NormItems(SubItems(items, c, d)) = NormItems(e.items))
ExoticOk(s, items, accepted) ==
  LET X == ExoSet(s) IN
  Cardinality(X) = 1 => LET c == CHOOSE x \in X : TRUE IN
                        \/ ~accepted        \* (a fourth reading: a character that does not belong in chord text at all)
                        \/ Reading(s, items, accepted, c, c) \/ Reading(s, items, accepted, c, 233) \/ Reading(s, items, accepted, c, 32)
                        \/ (c \in ExoticDigits /\ Reading(s, items, accepted, c, 55))     \* (a digit of another script read as a digit)
Inv == R.kind = "text" =>
         LET e == Expected(R.s) IN
         /\ R.terminated                                           \* no text makes the parser hang
         /\ (Exotic(R.s) \/ R.accepted = e.ok)                     \* accepted iff a sentence under the documented tokenisation
         /\ ((R.accepted /\ e.ok /\ ~Exotic(R.s)) => NormItems(R.items) = NormItems(e.items))   \* the tree lists exactly what was written, in order
         /\ (Exotic(R.s) => ExoticOk(R.s, R.items, R.accepted))
         /\ (~R.accepted => R.exit # 0)         \* anything else is rejected with an error (what else a failing run prints is C09's business)
\* long texts: k repetitions of a sentence (each a complete piece: the language is a list and the lexer modes are back at
\* their start after a complete sentence and a newline, which ends a trailing comment -- LexerMC) followed by a suffix: accepted iff sentence + suffix is, with
\* k x items(sentence) + items(suffix) entries in the tree
LongReading(c, d) == LET b == Expected(Sub(R.base, c, d))  e == Expected(Sub(R.base \o <<10>> \o R.suffix, c, d)) IN
                     b.ok /\ R.accepted = e.ok /\ (R.accepted => R.nitems = (R.reps - 1) * Len(b.items) + Len(e.items))
LongExoticOk == LET X == ExoSet(R.base \o R.suffix) IN
                Cardinality(X) = 1 => LET c == CHOOSE x \in X : TRUE IN ~R.accepted \/ LongReading(c, c) \/ LongReading(c, 233) \/ LongReading(c, 32) \/ (c \in ExoticDigits /\ LongReading(c, 55))
LongInv == R.kind = "long" =>
             LET b == Expected(R.base)  e == Expected(R.base \o <<10>> \o R.suffix) IN
             /\ b.ok                                     \* (the driver repeats a sentence)
             /\ R.terminated
             /\ (Exotic(R.base \o R.suffix) \/ R.accepted = e.ok)
             /\ (Exotic(R.base \o R.suffix) => LongExoticOk)
             /\ (R.accepted /\ ~Exotic(R.base \o R.suffix) => R.nitems = (R.reps - 1) * Len(b.items) + Len(e.items))
             \* (the diagnostic of a refusal is C09's business)
\* "The parser shipped is the one goyacc generates from that grammar file": the driver regenerated the parser with the
\* goyacc the module pins and compared Go token sequences.  Where goyacc cannot be run the record claims nothing
\* (the shipped tables are still bound to the grammar behaviourally, TokenTrace).
RegenInv == R.kind = "regen" => (R.ran => R.same /\ R.ntok > 1000)
=============================================================================
