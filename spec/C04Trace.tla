------------------------------ MODULE C04Trace ------------------------------
(***************************************************************************)
(* C04 -- the accepted chord language is exactly the documented grammar    *)
(* and the tree is faithful.  One state per text given to the real         *)
(* `crd text parse`.  The oracle is Lexer.tla (documented tokenisation)    *)
(* composed with ChordLang.tla (the language; model-checked equal to the   *)
(* productions of chords.y by ChordLangMC/Grammar).                         *)
(***************************************************************************)
EXTENDS Lexer, ChordLang, Json, TLC
Recs == ndJsonDeserialize("records.ndjson")
VARIABLE l
Init == l \in 1..Len(Recs)
Next == UNCHANGED l
Spec == Init /\ [][Next]_l
R == Recs[l]
Expected(s) == LET lx == Lex(s) IN IF lx.err THEN [ok |-> FALSE, items |-> <<>>] ELSE Parse(lx.toks)
\* a generator claim ("this text renders these tokens") is re-derived by the spec; a wrong claim is a bad test input
DriverClaim == (R.kind = "text" /\ R.hasClaim) => LET lx == Lex(R.s) IN ~lx.err /\ TokTypes(lx.toks) = R.claim
\* (metadata names and values are compared without the blanks around them, see Lexer!Trim)
NormMeta(m) == [j \in 1..Len(m) |-> <<Trim(m[j][1]), Trim(m[j][2])>>]
NormItems(items) == [i \in 1..Len(items) |-> [items[i] EXCEPT !.meta = NormMeta(@)]]
Inv == R.kind = "text" =>
         LET e == Expected(R.s) IN
         /\ R.terminated                                           \* no text makes the parser hang
         /\ (Exotic(R.s) \/ R.accepted = e.ok)                     \* accepted iff a sentence under the documented tokenisation
         /\ ((R.accepted /\ e.ok /\ ~Exotic(R.s)) => NormItems(R.items) = NormItems(e.items))   \* the tree lists exactly what was written, in order
         /\ (~R.accepted => R.exit # 0 /\ R.stderrLen > 0)         \* anything else is rejected with an error (what else a failing run prints is C09's business)
\* long texts: k repetitions of a sentence (each a complete piece: the language is a list and the lexer modes are back at
\* their start after a complete sentence and a newline, which ends a trailing comment -- LexerMC) followed by a suffix: accepted iff sentence + suffix is, with
\* k x items(sentence) + items(suffix) entries in the tree
LongInv == R.kind = "long" =>
             LET b == Expected(R.base)  e == Expected(R.base \o <<10>> \o R.suffix) IN
             /\ b.ok                                     \* (the driver repeats a sentence)
             /\ R.terminated
             /\ (Exotic(R.base \o R.suffix) \/ R.accepted = e.ok)
             /\ (R.accepted /\ ~Exotic(R.base \o R.suffix) => R.nitems = (R.reps - 1) * Len(b.items) + Len(e.items))
             /\ (~R.accepted => R.stderrLen > 0)
\* "The parser shipped is the one goyacc generates from that grammar file": the driver regenerated the parser with the
\* goyacc the module pins and compared Go token sequences.  Where goyacc cannot be run the record claims nothing
\* (the shipped tables are still bound to the grammar behaviourally, TokenTrace).
RegenInv == R.kind = "regen" => (R.ran => R.same /\ R.ntok > 1000)
=============================================================================
