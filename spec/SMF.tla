-------------------------------- MODULE SMF --------------------------------
(***************************************************************************)
(* Byte-level recogniser of Standard MIDI Files (property C08), written    *)
(* from the SMF 1.0 specification.  One action per byte of the file the    *)
(* real `crd write` produced.  `err` records the first rule a byte breaks;  *)
(* `evs` is the event list the recogniser decodes on the way (history      *)
(* variable), compared at the end of each file with the event list of the  *)
(* harness's Go reader, which binds that reader to this specification.     *)
(*                                                                          *)
(* Files are the records of "records.ndjson":                               *)
(*   [b |-> bytes, tracks |-> requested --track, ev |-> Go reader events,  *)
(*    division |-> ..., format |-> ..., ntracks |-> ...]                    *)
(***************************************************************************)
EXTENDS Integers, Sequences, FiniteSets, Json, TLC
Recs == ndJsonDeserialize("records.ndjson")

VARIABLES l,       \* record (file) being read
          i,       \* bytes of it consumed
          ph,      \* phase: hdr chdr delta status data mtype mlen mdata sxlen sxdata end
          k,       \* position inside a fixed-size header
          fmt, ntrks, div,
          trk,     \* chunks completed
          rem,     \* bytes left in the current chunk
          acc, vl, \* accumulator / length of the variable-length quantity being read
          st,      \* running status (0 = none)
          need, d1,\* data bytes still needed / first data byte
          mt,      \* meta type
          eot,     \* end-of-track seen in this chunk
          open,    \* sounding notes of this chunk: sequence of <<channel, key>>
          tick,    \* absolute tick in this chunk
          delta,   \* delta of the event being read
          pay,     \* payload collected for the current meta / sysex event
          evs,     \* decoded events: <<trk, tick, delta, kind, ch, a, b, payload>>
          err      \* "" or the rule that was broken
vars == <<l, i, ph, k, fmt, ntrks, div, trk, rem, acc, vl, st, need, d1, mt, eot, open, tick, delta, pay, evs, err>>

MThd == <<77, 84, 104, 100, 0, 0, 0, 6>>
MTrk == <<77, 84, 114, 107>>
B == Recs[l].b
NeedOf(s) == IF (s \div 16) \in {12, 13} THEN 1 ELSE 2      \* program change, channel pressure: one data byte
RECURSIVE RemoveFirst(_, _)
RemoveFirst(s, x) == IF s = <<>> THEN <<>> ELSE IF Head(s) = x THEN Tail(s) ELSE <<Head(s)>> \o RemoveFirst(Tail(s), x)
In(s, x) == \E j \in 1..Len(s) : s[j] = x

Init == /\ l \in 1..Len(Recs) /\ i = 0 /\ ph = "hdr" /\ k = 0 /\ fmt = 0 /\ ntrks = 0 /\ div = 0 /\ trk = 0 /\ rem = 0 /\ acc = 0 /\ vl = 0
        /\ st = 0 /\ need = 0 /\ d1 = 0 /\ mt = 0 /\ eot = FALSE /\ open = <<>> /\ tick = 0 /\ delta = 0 /\ pay = <<>>
        /\ evs = <<>> /\ err = ""

Fail(why) == err' = why /\ UNCHANGED <<l, ph, k, fmt, ntrks, div, trk, rem, acc, vl, st, need, d1, mt, eot, open, tick, delta, pay, evs>>

\* bookkeeping shared by the steps that complete an event: r = bytes left in the chunk after this byte
Emit(r, e, isEot) ==
  /\ evs' = Append(evs, e)
  /\ IF r = 0
     THEN IF isEot THEN ph' = "chdr" /\ trk' = trk + 1 /\ err' = err
                   ELSE ph' = "chdr" /\ trk' = trk /\ err' = "chunk ends without end-of-track"
     ELSE ph' = "delta" /\ trk' = trk /\ err' = err

HdrByte(b) ==
  IF k < 8 /\ b # MThd[k + 1] THEN Fail("header is not MThd with length 6")
  ELSE /\ fmt'   = IF k = 8 THEN b * 256 ELSE IF k = 9 THEN fmt + b ELSE fmt
       /\ ntrks' = IF k = 10 THEN b * 256 ELSE IF k = 11 THEN ntrks + b ELSE ntrks
       /\ div'   = IF k = 12 THEN b * 256 ELSE IF k = 13 THEN div + b ELSE div
       /\ k' = IF k = 13 THEN 0 ELSE k + 1
       /\ ph' = IF k = 13 THEN "chdr" ELSE "hdr"
       /\ err' = IF k = 12 /\ b >= 128 THEN "SMPTE division" ELSE ""
       /\ UNCHANGED <<l, trk, rem, acc, vl, st, need, d1, mt, eot, open, tick, delta, pay, evs>>

ChunkHdrByte(b) ==
  IF trk >= ntrks THEN Fail("more chunks than the header declares")
  ELSE IF k < 4 /\ b # MTrk[k + 1] THEN Fail("chunk is not MTrk")
  ELSE /\ acc' = IF k < 4 THEN 0 ELSE acc * 256 + b
       /\ k' = IF k = 7 THEN 0 ELSE k + 1
       /\ ph' = IF k = 7 THEN "delta" ELSE "chdr"
       /\ rem' = IF k = 7 THEN acc * 256 + b ELSE rem
       /\ err' = IF k = 7 /\ acc * 256 + b = 0 THEN "empty track chunk (no end-of-track)" ELSE ""
       /\ vl' = 0 /\ st' = 0 /\ eot' = FALSE /\ open' = <<>> /\ tick' = 0 /\ delta' = 0 /\ pay' = <<>>
       /\ UNCHANGED <<l, fmt, ntrks, div, trk, need, d1, mt, evs>>

DeltaByte(b) ==
  IF rem = 0 THEN Fail("chunk length exhausted")
  ELSE IF eot THEN Fail("event after end-of-track")
  ELSE IF vl >= 4 THEN Fail("variable-length quantity longer than 4 bytes")
  ELSE /\ rem' = rem - 1
       /\ LET v == (IF vl = 0 THEN 0 ELSE acc) * 128 + (b % 128) IN
          IF b >= 128 THEN acc' = v /\ vl' = vl + 1 /\ ph' = "delta" /\ delta' = delta /\ tick' = tick
                      ELSE acc' = 0 /\ vl' = 0 /\ ph' = "status" /\ delta' = v /\ tick' = tick + v
       /\ UNCHANGED <<l, k, fmt, ntrks, div, trk, st, need, d1, mt, eot, open, pay, evs, err>>

\* a channel message is complete with data bytes x (and y)
ChannelEvent(r, s, x, y) ==
  LET kind == s \div 16   ch == s % 16   key == <<ch, x>>
      isOn == kind = 9 /\ y > 0
      isOff == kind = 8 \/ (kind = 9 /\ y = 0)
  IN /\ IF isOff /\ ~In(open, key)
        THEN err' = "note-off for a key that is not sounding" /\ UNCHANGED <<open, evs, ph, trk>>
        ELSE /\ open' = IF isOn THEN Append(open, key) ELSE IF isOff THEN RemoveFirst(open, key) ELSE open
             /\ Emit(r, <<trk, tick, delta, kind, ch, x, y, <<>> >>, FALSE)
     /\ UNCHANGED <<l, k, fmt, ntrks, div, acc, vl, mt, eot, tick, delta, pay>>

StatusByte(b) ==
  IF rem = 0 THEN Fail("chunk length exhausted")
  ELSE IF b = 255 THEN /\ rem' = rem - 1 /\ ph' = "mtype" /\ st' = 0
                       /\ UNCHANGED <<l, k, fmt, ntrks, div, trk, acc, vl, need, d1, mt, eot, open, tick, delta, pay, evs, err>>
  ELSE IF b \in {240, 247} THEN /\ rem' = rem - 1 /\ ph' = "sxlen" /\ st' = 0 /\ mt' = b /\ acc' = 0 /\ vl' = 0 /\ pay' = <<>>
                                /\ UNCHANGED <<l, k, fmt, ntrks, div, trk, need, d1, eot, open, tick, delta, evs, err>>
  ELSE IF b >= 240 THEN Fail("system message inside a file")
  ELSE IF b >= 128 THEN /\ rem' = rem - 1 /\ ph' = "data" /\ st' = b /\ need' = NeedOf(b)
                        /\ UNCHANGED <<l, k, fmt, ntrks, div, trk, acc, vl, d1, mt, eot, open, tick, delta, pay, evs, err>>
  ELSE IF st = 0 THEN Fail("data byte without running status")
  ELSE \* running status: this byte is the first data byte
       IF NeedOf(st) = 1
       THEN /\ rem' = rem - 1 /\ st' = st /\ need' = 0 /\ d1' = b /\ ChannelEvent(rem - 1, st, b, 0)
       ELSE /\ rem' = rem - 1 /\ st' = st /\ need' = 1 /\ d1' = b /\ ph' = "data"
            /\ UNCHANGED <<l, k, fmt, ntrks, div, trk, acc, vl, mt, eot, open, tick, delta, pay, evs, err>>

DataByte(b) ==
  IF rem = 0 THEN Fail("chunk length exhausted")
  ELSE IF b >= 128 THEN Fail("data byte >= 128")
  ELSE IF need = 2 THEN /\ rem' = rem - 1 /\ d1' = b /\ need' = 1 /\ ph' = "data"
                        /\ UNCHANGED <<l, k, fmt, ntrks, div, trk, acc, vl, st, mt, eot, open, tick, delta, pay, evs, err>>
  ELSE /\ rem' = rem - 1 /\ need' = 0 /\ st' = st
       /\ IF NeedOf(st) = 1 THEN d1' = b /\ ChannelEvent(rem - 1, st, b, 0)
                            ELSE d1' = d1 /\ ChannelEvent(rem - 1, st, d1, b)

MetaTypeByte(b) ==
  IF rem = 0 THEN Fail("chunk length exhausted")
  ELSE IF b >= 128 THEN Fail("meta type >= 128")
  ELSE IF b \in {81, 88, 89} /\ trk # 0 THEN Fail("tempo / time signature / key signature outside the first track")
  ELSE /\ rem' = rem - 1 /\ mt' = b /\ ph' = "mlen" /\ acc' = 0 /\ vl' = 0 /\ pay' = <<>>
       /\ UNCHANGED <<l, k, fmt, ntrks, div, trk, st, need, d1, eot, open, tick, delta, evs, err>>

MetaLenOk(t, n) == /\ (t = 47 => n = 0) /\ (t = 81 => n = 3) /\ (t = 88 => n = 4) /\ (t = 89 => n = 2)
                   /\ (t = 0 => n = 2) /\ (t = 32 => n = 1) /\ (t = 84 => n = 5)
MetaLenByte(b) ==
  IF rem = 0 THEN Fail("chunk length exhausted")
  ELSE IF vl >= 4 THEN Fail("variable-length quantity longer than 4 bytes")
  ELSE LET n == acc * 128 + (b % 128) IN
       IF b >= 128 THEN /\ rem' = rem - 1 /\ acc' = n /\ vl' = vl + 1 /\ ph' = "mlen"
                        /\ UNCHANGED <<l, k, fmt, ntrks, div, trk, st, need, d1, mt, eot, open, tick, delta, pay, evs, err>>
       ELSE IF ~MetaLenOk(mt, n) THEN Fail("wrong length for this meta type")
       ELSE IF n > rem - 1 THEN Fail("meta payload exceeds the chunk")
       ELSE IF mt = 47 /\ open # <<>> THEN Fail("end-of-track with a note still sounding")
       ELSE /\ rem' = rem - 1 /\ acc' = n /\ vl' = 0 /\ eot' = (mt = 47)
            /\ IF n = 0 THEN Emit(rem - 1, <<trk, tick, delta, 255, 0, mt, 0, <<>> >>, mt = 47)
                        ELSE ph' = "mdata" /\ UNCHANGED <<trk, evs, err>>
            /\ UNCHANGED <<l, k, fmt, ntrks, div, st, need, d1, mt, open, tick, delta, pay>>

MetaDataByte(b) ==
  /\ rem' = rem - 1 /\ acc' = acc - 1
  /\ IF acc = 1 THEN pay' = <<>> /\ Emit(rem - 1, <<trk, tick, delta, 255, 0, mt, 0, Append(pay, b)>>, FALSE)
                ELSE pay' = Append(pay, b) /\ ph' = "mdata" /\ UNCHANGED <<trk, evs, err>>
  /\ UNCHANGED <<l, k, fmt, ntrks, div, vl, st, need, d1, mt, eot, open, tick, delta>>

SysexLenByte(b) ==
  IF rem = 0 THEN Fail("chunk length exhausted")
  ELSE IF vl >= 4 THEN Fail("variable-length quantity longer than 4 bytes")
  ELSE LET n == acc * 128 + (b % 128) IN
       IF b >= 128 THEN /\ rem' = rem - 1 /\ acc' = n /\ vl' = vl + 1 /\ ph' = "sxlen"
                        /\ UNCHANGED <<l, k, fmt, ntrks, div, trk, st, need, d1, mt, eot, open, tick, delta, pay, evs, err>>
       ELSE IF n > rem - 1 THEN Fail("sysex payload exceeds the chunk")
       ELSE /\ rem' = rem - 1 /\ acc' = n /\ vl' = 0
            /\ IF n = 0 THEN Emit(rem - 1, <<trk, tick, delta, mt, 0, 0, 0, <<>> >>, FALSE)
                        ELSE ph' = "sxdata" /\ UNCHANGED <<trk, evs, err>>
            /\ UNCHANGED <<l, k, fmt, ntrks, div, st, need, d1, mt, eot, open, tick, delta, pay>>
SysexDataByte(b) ==
  /\ rem' = rem - 1 /\ acc' = acc - 1
  /\ IF acc = 1 THEN pay' = <<>> /\ Emit(rem - 1, <<trk, tick, delta, mt, 0, 0, 0, Append(pay, b)>>, FALSE)
                ELSE pay' = Append(pay, b) /\ ph' = "sxdata" /\ UNCHANGED <<trk, evs, err>>
  /\ UNCHANGED <<l, k, fmt, ntrks, div, vl, st, need, d1, mt, eot, open, tick, delta>>

Byte ==
  /\ err = "" /\ ph # "end" /\ Recs[l].kind = "file" /\ i < Len(B)
  /\ i' = i + 1
  /\ LET b == B[i + 1] IN
     CASE ph = "hdr"    -> HdrByte(b)
       [] ph = "chdr"   -> ChunkHdrByte(b)
       [] ph = "delta"  -> DeltaByte(b)
       [] ph = "status" -> StatusByte(b)
       [] ph = "data"   -> DataByte(b)
       [] ph = "mtype"  -> MetaTypeByte(b)
       [] ph = "mlen"   -> MetaLenByte(b)
       [] ph = "mdata"  -> MetaDataByte(b)
       [] ph = "sxlen"  -> SysexLenByte(b)
       [] ph = "sxdata" -> SysexDataByte(b)

\* what must hold when the last byte of a file has been read
EndProblem ==
  IF ph # "chdr" \/ k # 0 THEN "file ends inside a chunk or header"
  ELSE IF trk # ntrks THEN "fewer chunks than the header declares"
  ELSE IF fmt \notin {0, 1} THEN "format is neither 0 nor 1"
  ELSE IF (fmt = 0) # (ntrks = 1) THEN "format 0 iff exactly one track"
  ELSE IF ntrks # Recs[l].tracks THEN "number of chunks differs from --track"
  ELSE IF Len(evs) # Len(Recs[l].ev) \/ \E j \in 1..Len(evs) : evs[j] # Recs[l].ev[j]
       THEN "the harness reader decoded a different event list"
  ELSE IF fmt # Recs[l].format \/ ntrks # Recs[l].ntracks \/ div # Recs[l].division
       THEN "the harness reader decoded a different header"
  ELSE ""
EndOfFile ==
  /\ err = "" /\ ph # "end" /\ Recs[l].kind = "file" /\ i = Len(B)
  /\ IF EndProblem # "" THEN err' = EndProblem /\ ph' = ph ELSE err' = err /\ ph' = "end"
  /\ UNCHANGED <<l, i, k, fmt, ntrks, div, trk, rem, acc, vl, st, need, d1, mt, eot, open, tick, delta, pay, evs>>
Skipped == Recs[l].kind \in {"skipped", "nofile", "listing", "hugefile"} /\ ph # "end" /\ ph' = "end"
           /\ UNCHANGED <<l, i, k, fmt, ntrks, div, trk, rem, acc, vl, st, need, d1, mt, eot, open, tick, delta, pay, evs, err>>
\* terminal stuttering, so that TLC's deadlock check flags any file the recogniser gets stuck in
Finished == (ph = "end" \/ err # "") /\ UNCHANGED vars

Next == Byte \/ EndOfFile \/ Skipped \/ Finished
Spec == Init /\ [][Next]_vars
Inv == err = ""
\* files with thousands of tracks are summarised by the strict reader instead of being walked byte by byte
HugeInv == Recs[l].kind = "hugefile" =>
             /\ Recs[l].readerOk                        \* structurally valid: every chunk found, nothing left over
             /\ Recs[l].declared = Recs[l].tracks       \* exactly --track chunks, as the header says
             /\ Recs[l].eots = Recs[l].tracks /\ Recs[l].format = (IF Recs[l].tracks = 1 THEN 0 ELSE 1)
             /\ Recs[l].unmatched = 0 /\ Recs[l].hanging = 0   \* every note-on closed, nothing released that was not struck
=============================================================================
