------------------------------ MODULE CircleMC ------------------------------
(* Exhaustive exploration of the ring mechanism from all 28 keys: it refines the pitch arithmetic,
   whichever spelling of the current member the next step is read by. *)
EXTENDS Circle, TLC
VARIABLES member, abs, steps
vars == <<member, abs, steps>>
Init == \E k \in SupportedKeys : member = {k} /\ abs = AbsOf(k) /\ steps = 0
Next == \E c \in Convs : \E k \in member :
          /\ member' = HowStep(c, k)
          /\ abs' = AbsStep(c, abs)
          /\ steps' = 1
Spec == Init /\ [][Next]_vars
Refines == member \subseteq Spellings(abs) /\ (steps > 0 => member = Spellings(abs))
ChoiceIndependent == \A c \in Convs : \A k1, k2 \in member : HowStep(c, k1) = HowStep(c, k2)
RingsCoverSupported == UNION Range(MajorRing) \cup UNION Range(MinorRing) = SupportedKeys
RingsAligned == \A i \in 1..12 : \A a \in MajorRing[i] : \A b \in MinorRing[i] : Signature(a) % 12 = Signature(b) % 12
ASSUME Laws
ASSUME RingsCoverSupported
ASSUME RingsAligned
=============================================================================
