SPECIFICATION Spec
INVARIANTS DriverClaimPipe PipeInv ScalarInv CmtInv
CHECK_DEADLOCK FALSE
