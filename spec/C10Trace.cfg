SPECIFICATION Spec
INVARIANTS DriverClaimPipe PipeInv ScalarInv CmtInv BigPipeInv BigLineInv
CHECK_DEADLOCK FALSE
