SPECIFICATION Spec
INVARIANTS DriverClaimPipe PipeInv ScalarInv CmtInv BigPipeInv
CHECK_DEADLOCK FALSE
