SPECIFICATION Spec
INVARIANTS DriverClaimPipe PipeInv ScalarInv CmtInv BigPipeInv BigLineInv TextRtInv
CHECK_DEADLOCK FALSE
