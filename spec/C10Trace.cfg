SPECIFICATION Spec
INVARIANTS DriverClaimPipe PipeInv ScalarInv CmtInv BigPipeInv BigLineInv TextRtInv TextTcInv
CHECK_DEADLOCK FALSE
