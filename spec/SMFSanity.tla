----------------------------- MODULE SMFSanity -----------------------------
(* Self-test of the SMF recogniser (model side of C08): hand-assembled files, not produced by crd, and one
   corruption per rule. Every file must end in exactly the verdict it is labelled with, and the harness
   reader must agree on the structural ones. *)
EXTENDS SMF
Verdict == /\ (ph = "end" => Recs[l].expectOk)          \* accepted only if it is a good file
           /\ (err # "" => ~Recs[l].expectOk)           \* rejected only if it is a corrupted one
ReaderAgrees == Recs[l].readerOk = Recs[l].expectReader
=============================================================================
