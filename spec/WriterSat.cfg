CONSTANTS N = 3
 W = 16
 Max = 5
 L = 4
 K = 7
 Wrap = FALSE
SPECIFICATION SSpec
INVARIANTS ClockInv EOTInv Refines Faithful WrittenRight RefusedRight ShortIsWritten
CHECK_DEADLOCK FALSE
