CONSTANT N = 1
SPECIFICATION TSpec
INVARIANTS Conforms FinalOk ClockInv EOTInv Refines MetaOnTrack0
CHECK_DEADLOCK TRUE
