----------------------------- MODULE IterReplay -----------------------------
(***************************************************************************)
(* Behaviours of IterVisitor.tla for replay on the real iterator (property  *)
(* C12): TLC's simulator writes interleavings of the producer goroutine and *)
(* the consumer; the harness (vinproc gate) steps the real                  *)
(* ast.IterVisitor.All through each of them -- the producer held in front   *)
(* of every send by the verif gate hook, the consumer held inside its loop  *)
(* body -- and compares channel length, nodes sent and nodes seen after     *)
(* every action.                                                            *)
(*                                                                          *)
(* Spec       every interleaving (random walk: the channel rarely fills)    *)
(* FillSpec   the same actions, but the consumer does not start before the  *)
(*            producer has filled the channel (or sent everything): the     *)
(*            behaviours in which the producer blocks on a full channel     *)
(***************************************************************************)
EXTENDS IterVisitor
FillNext == IF got = <<>> /\ Len(ch) < Cap /\ sent < N THEN P ELSE Next
FillSpec == Init /\ [][FillNext]_vars
=============================================================================
