CONSTANTS N = 40
 Cap = 100
 StopAt = 0
SPECIFICATION Spec
CHECK_DEADLOCK FALSE
