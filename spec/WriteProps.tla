----------------------------- MODULE WriteProps -----------------------------
(***************************************************************************)
(* What an observation r of `crd write` must satisfy, per property         *)
(* (C01 C02 C06 C07).  r carries the abstract document and flags           *)
(* (r.doc, r.flags), the requested track count, and the events decoded     *)
(* from the SMF bytes the real binary wrote (r.ev; r.ev1 for --track 1).   *)
(* Used by WriteTrace.tla (documents given as YAML) and PipeTrace.tla      *)
(* (documents that came out of `text conv`, property C10).                  *)
(***************************************************************************)
EXTENDS Piece
ChordIdxOf(d) == LET RECURSIVE F(_)  F(k) == IF k > Len(d) THEN <<>> ELSE (IF d[k].rest THEN <<>> ELSE <<k>>) \o F(k + 1) IN F(1)
Keys(run) == [j \in 1..Len(run) |-> run[j][6]]
Ticks(run) == {run[j][2] : j \in 1..Len(run)}
Vels(run) == {run[j][7] : j \in 1..Len(run)}
AllInRange(d) == \A i \in 1..Len(d) : d[i].rest \/ InMidiRange(d[i], KeyInForce(d, i))
WellFormedInput(d) == \A i \in 1..Len(d) :
    d[i].rest \/ (ParseInterval(d[i].deg).ok /\ KnownSymbol(d[i].sym) /\ (d[i].base = <<>> \/ ParseInterval(d[i].base).ok))
\* the notes of a file are grouped by WHEN they are struck, not by the order in which the writer happened to emit them:
\* the k-th distinct note-on tick (ascending) belongs to the k-th chord of the document
RECURSIVE SortedTicks(_)
SortedTicks(S) == IF S = {} THEN <<>> ELSE LET m == CHOOSE x \in S : \A y \in S : x <= y IN <<m>> \o SortedTicks(S \ {m})
OnsOf(ev) == SelectSeq2(ev, IsOn)
StrikeTicks(ev) == LET o == OnsOf(ev) IN SortedTicks({o[j][2] : j \in 1..Len(o)})
StruckAt(ev, t) == SelectSeq2(ev, LAMBDA e : IsOn(e) /\ e[2] = t)
\* start tick of every instance (and of the end, index Len+1) for a choice of neighbours at the half ticks
StartsOf(r, d, ch) == LET RECURSIVE F(_, _)
                       F(i, acc) == IF i > Len(d) THEN <<acc>> ELSE <<acc>> \o F(i + 1, acc + Dur(r.division, d, ch, i))
                   IN F(1, 0)

Strip(e) == <<e[2], e[4], e[5], e[6], e[7], e[8]>>          \* tick, kind, channel, data, payload: no track, no delta

\* ------------------------------------------------------------------ the limit of the file format
\* A delta time of a Standard MIDI File is a variable-length quantity of at most four bytes: 2^28 - 1 ticks.  A piece whose
\* whole length fits one delta time can always be written, so it must be; beyond that crd may refuse -- with a message, a
\* non-zero status and no output (r.refused) -- and whatever it does write must still be right (a 5-byte delta, or ticks
\* that wrapped round, are violations like any other).
MaxDelta == 268435455
WithinLimitT(T, d) == LET RECURSIVE F(_, _)
                          F(i, acc) == IF i > Len(d) THEN TRUE
                                       ELSE LET s == ValSum(d[i].vals) IN
                                            IF s[1] \div s[2] > MaxDelta \div T THEN FALSE    \* (whole beats alone are beyond it: T * beats is not even computed, it would not fit TLC's integers)
                                            ELSE LET t == Lo(T, d[i]) + 1 IN t <= MaxDelta - acc /\ F(i + 1, acc + t)
                      IN F(1, 0)
\* T: the ticks per quarter note this binary declares (read off a small reference file by the driver; a refused run has no
\* header of its own)
WithinLimit(r, d) == WithinLimitT(IF r.refDivision > 0 THEN r.refDivision ELSE 960, d)
\* a refusal is acceptable beyond the limit of the format -- or for a piece with a chord outside the MIDI range, about which
\* no property says that it must be written
RefusedOk(r, d) == r.refused /\ (~WithinLimit(r, d) \/ ~AllInRange(d))

\* The half-tick choice is enumerated (2^h assignments for h halfway instances).  The generators' fractions are tuned to
\* crd's 960 ticks per quarter note (h <= 2); at another resolution a document may have a dozen, and rather than leave the
\* whole check undecided such a document is left unjudged (never the case on the pinned tree)
TooAmbiguous(r, d) == Cardinality(HalfSet(r.division, d)) > 10

\* ------------------------------------------------------------------ C01
C01Ok(r) == LET d == Eff(r.doc, r.flags)  cidx == ChordIdxOf(d)  ticks == StrikeTicks(r.ev) IN
         /\ WellFormedInput(d)                \* the driver generated what it claims
         /\ AllInRange(d)                     \* C01 is about chords inside the MIDI range (the generator keeps them there)
         /\ r.ok
         /\ Len(ticks) = Len(cidx)            \* one strike time per chord (C01 documents have no zero-length instances), rests are silent
         /\ \A k \in 1..Len(cidx) :
              BagOfSeq(Keys(StruckAt(r.ev, ticks[k]))) = ExpectedKeys(d[cidx[k]], KeyInForce(d, cidx[k]))

\* ------------------------------------------------------------------ C02
\* Per track and per (channel, key) the note events, in file order: every strike is closed by a later release (the j-th
\* release closes the j-th strike; a chord may sound a pitch twice), where a release of an earlier chord and a strike of
\* the same pitch share a tick the release comes first, and every (strike tick, release tick) pair must be the span of
\* a chord instance; every chord's span must be
\* sounded by at least one note. Nothing here depends on the order in which different pitches are emitted, on which
\* track a note lands, or on which pitches a chord has (that is C01's business).
NoZeroChord(r, d) == \A i \in 1..Len(d) : d[i].rest \/ Lo(r.division, d[i]) > 0
Voices(notes) == {<<notes[j][1], notes[j][5], notes[j][6]>> : j \in 1..Len(notes)}            \* <<track, channel, key>>
VoiceSeq(notes, v) == SelectSeq2(notes, LAMBDA e : e[1] = v[1] /\ e[5] = v[2] /\ e[6] = v[3])
\* indices of the strikes / releases of one voice, in file order; the j-th release closes the j-th strike
IdxWhere(s, P(_)) == LET RECURSIVE F(_)  F(k) == IF k > Len(s) THEN <<>> ELSE (IF P(s[k]) THEN <<k>> ELSE <<>>) \o F(k + 1) IN F(1)
VoiceOk(s) == LET on == IdxWhere(s, IsOn)  off == IdxWhere(s, IsOff) IN
   /\ Len(on) = Len(off)                                           \* every note is closed, nothing is released that was not struck
   /\ \A j \in 1..Len(on) : on[j] < off[j]
   \* where a release of an EARLIER chord and a strike share a tick, the release comes first in the track
   /\ \A j \in 1..Len(off) : s[on[j]][2] < s[off[j]][2] =>
          \A a \in 1..Len(on) : s[on[a]][2] = s[off[j]][2] => on[a] > off[j]
SpansOf(s) == LET on == IdxWhere(s, IsOn)  off == IdxWhere(s, IsOff) IN
              {<<s[on[j]][2], s[off[j]][2]>> : j \in 1..Len(on)}
C02Written(r) ==
         LET d == Eff(r.doc, r.flags)  cidx == ChordIdxOf(d)
             notes == SelectSeq2(r.ev, IsNote)
             voices == Voices(notes) IN
         /\ r.ok /\ r.ok1
         /\ \A v \in voices : VoiceOk(VoiceSeq(notes, v))
         /\ TooAmbiguous(r, d) \/ \E ch \in Choices(r.division, d) : LET st == StartsOf(r, d, ch)
                                                   want == {<<st[cidx[k]], st[cidx[k] + 1]>> : k \in 1..Len(cidx)}
                                                   got == UNION {SpansOf(VoiceSeq(notes, v)) : v \in voices} IN
              got = want          \* strikes at the instance start (first instance at 0), releases at its end; rests silent; gapless

C02Ok(r) == RefusedOk(r, Eff(r.doc, r.flags)) \/ C02Written(r)

\* ------------------------------------------------------------------ C06
Merged(ev) == LET s == SelectSeq2(ev, LAMBDA e : ~IsEOT(e)) IN BagOfSeq([j \in 1..Len(s) |-> Strip(s[j])])
C06Written(r) ==
         LET d == Eff(r.doc, r.flags)  eots == SelectSeq2(r.ev, IsEOT)  eots1 == SelectSeq2(r.ev1, IsEOT) IN
         /\ r.ok /\ r.ok1
         /\ Merged(r.ev) = Merged(r.ev1)                        \* same events at the same ticks, whatever the distribution
         /\ Len(eots) = r.tracks /\ Len(eots1) = 1
         /\ TooAmbiguous(r, d) \/ \E ch \in Choices(r.division, d) : LET total == StartsOf(r, d, ch)[Len(d) + 1] IN
              /\ \A j \in 1..r.tracks : eots[j][2] = total     \* every track ends when the piece ends
              /\ eots1[1][2] = total

C06Ok(r) == RefusedOk(r, Eff(r.doc, r.flags)) \/ C06Written(r)

\* ------------------------------------------------------------------ C07
DynRank(s) == CASE s = "pp" -> 1 [] s = "p" -> 2 [] s = "mp" -> 3 [] s = "mf" -> 4 [] s = "f" -> 5 [] s = "ff" -> 6 [] OTHER -> 0
VelocityOk(r, d) ==
    LET cidx == ChordIdxOf(d)  ticks == StrikeTicks(r.ev)
        dyn == [k \in 1..Len(cidx) |-> DynInForce(d, cidx[k])]
        vel == [k \in 1..Len(ticks) |-> Vels(StruckAt(r.ev, ticks[k]))] IN
    Len(ticks) = Len(cidx) =>            \* (documents with a zero-length chord are not used for the velocity law)
    /\ \A k \in 1..Len(cidx) : Cardinality(vel[k]) = 1
    /\ \A j, k \in 1..Len(cidx) :
         /\ (dyn[j] = dyn[k] => vel[j] = vel[k])                                  \* a dynamic holds for all following notes
         /\ (DynRank(dyn[j]) > 0 /\ DynRank(dyn[k]) > DynRank(dyn[j])
               => \A x \in vel[j], y \in vel[k] : y >= x)                        \* louder never quieter
\* the value of a tempo / meter / key setting in force at instance i: the last demand of that type at or before i
InForceAt(dem, ty, i) == LET S == {x \in dem : x[2] = ty /\ x[1] <= i} IN (CHOOSE x \in S : \A y \in S : y[1] <= x[1])[3]
\* a time signature travels as two bytes (numerator, exponent of the denominator): a numerator above 255, or a denominator
\* that is not a power of two (or is above 128), has no event that carries "the written value", so such a piece can only
\* be refused (written with another value is a violation)
MeterFits(d) == \A i \in 1..Len(d) : d[i].meter = <<>> \/ (d[i].meter[1] <= 255 /\ d[i].meter[2] \in {1, 2, 4, 8, 16, 32, 64, 128})
C07Written(r) ==
            LET d == Eff(r.doc, r.flags)  ctl == SelectSeq2(r.ev, IsControl)  dem == Demands(d)
                textual == {mTEXT, mLYRIC, mMARKER} IN
         /\ r.ok
         /\ TooAmbiguous(r, d) \/ \E ch \in Choices(r.division, d) : LET st == StartsOf(r, d, ch) IN
              \* every demanded event is there: at the start of its instance, with the written value (which track carries the
              \* settings is C08's sentence, judged there)
              /\ \A dm \in dem : \E j \in 1..Len(ctl) :
                    /\ ctl[j][2] = st[dm[1]]
                    /\ Satisfies(ctl[j], dm)
              \* and nothing else: every control event is a demanded one, or restates at an instance start the tempo / meter /
              \* key signature already in force (harmless; the property does not forbid it)
              /\ \A j \in 1..Len(ctl) :
                    \/ \E dm \in dem : ctl[j][2] = st[dm[1]] /\ Satisfies(ctl[j], dm)
                    \* (a text, lyric or marker event of the writer's own -- a label at tick 0, a "Fine" where the piece ends -- is
                    \* nobody's business; a text of the DOCUMENT anywhere but at the start of its instance is a violation)
                    \/ (ctl[j][6] \in textual /\ (ctl[j][2] = 0 \/ \A dm \in dem : dm[2] \in textual => dm[3] # ctl[j][8]))
                    \/ /\ ctl[j][6] \in {mTEMPO, mMETER, mKEYSIG}
                       /\ \E i \in 1..Len(d) : st[i] = ctl[j][2] /\ Satisfies(ctl[j], <<i, ctl[j][6], InForceAt(dem, ctl[j][6], i)>>)
         \* (a text, lyric or marker event that no instance asked for is tolerated at tick 0 only: a writer's own label)
         /\ VelocityOk(r, d)
\* a tempo travels as 24 bits of microseconds per quarter note: 60,000,000 / bpm must be between 1 and 2^24 - 1, that is
\* 4 <= bpm <= 60,000,000; outside, no event carries the written tempo (a slower one would come out as 0 = infinitely fast)
BpmFits(d) == \A i \in 1..Len(d) : d[i].bpm = 0 \/ (d[i].bpm >= 4 /\ d[i].bpm <= 60000000)
C07Ok(r) == LET d == Eff(r.doc, r.flags) IN (r.refused /\ (~MeterFits(d) \/ ~BpmFits(d))) \/ C07Written(r)
=============================================================================
