----------------------------- MODULE WriteProps -----------------------------
(***************************************************************************)
(* What an observation r of `crd write` must satisfy, per property         *)
(* (C01 C02 C06 C07).  r carries the abstract document and flags           *)
(* (r.doc, r.flags), the requested track count, and the events decoded     *)
(* from the SMF bytes the real binary wrote (r.ev; r.ev1 for --track 1).   *)
(* Used by WriteTrace.tla (documents given as YAML) and PipeTrace.tla      *)
(* (documents that came out of `text conv`, property C10).                  *)
(***************************************************************************)
EXTENDS Piece
ChordIdxOf(d) == LET RECURSIVE F(_)  F(k) == IF k > Len(d) THEN <<>> ELSE (IF d[k].rest THEN <<>> ELSE <<k>>) \o F(k + 1) IN F(1)
Keys(run) == [j \in 1..Len(run) |-> run[j][6]]
Ticks(run) == {run[j][2] : j \in 1..Len(run)}
Vels(run) == {run[j][7] : j \in 1..Len(run)}
AllInRange(d) == \A i \in 1..Len(d) : d[i].rest \/ InMidiRange(d[i], KeyInForce(d, i))
WellFormedInput(d) == \A i \in 1..Len(d) :
    d[i].rest \/ (ParseInterval(d[i].deg).ok /\ KnownSymbol(d[i].sym) /\ (d[i].base = <<>> \/ ParseInterval(d[i].base).ok))
\* structure shared by C01/C02/C07 on single-track files: per chord one run of note-ons then one run of note-offs
RunsShape(runs, cidx) ==
   /\ Len(runs) = 2 * Len(cidx)
   /\ \A k \in 1..Len(cidx) : (\A j \in 1..Len(runs[2 * k - 1]) : IsOn(runs[2 * k - 1][j]))
                                /\ (\A j \in 1..Len(runs[2 * k]) : IsOff(runs[2 * k][j]))
\* start tick of every instance (and of the end, index Len+1) for a choice of neighbours at the half ticks
StartsOf(r, d, ch) == LET RECURSIVE F(_, _)
                       F(i, acc) == IF i > Len(d) THEN <<acc>> ELSE <<acc>> \o F(i + 1, acc + Dur(r.division, d, ch, i))
                   IN F(1, 0)

Strip(e) == <<e[2], e[4], e[5], e[6], e[7], e[8]>>          \* tick, kind, channel, data, payload: no track, no delta

\* ------------------------------------------------------------------ C01
C01Ok(r) == LET d == Eff(r.doc, r.flags)  cidx == ChordIdxOf(d)  runs == Runs(SelectSeq2(r.ev, IsNote)) IN
         /\ WellFormedInput(d)                \* the driver generated what it claims
         /\ AllInRange(d)                     \* C01 is about chords inside the MIDI range (the generator keeps them there)
         /\ r.tracks = 1
         /\ r.ok /\ RunsShape(runs, cidx)
         /\ \A k \in 1..Len(cidx) :
              BagOfSeq(Keys(runs[2 * k - 1])) = ExpectedKeys(d[cidx[k]], KeyInForce(d, cidx[k]))

\* ------------------------------------------------------------------ C02
\* off before on where a track has both for the same key at the same tick
ReleaseBeforeStrike(r, notes) ==
  \A t \in 0..(r.ntracks - 1) :
    LET s == SelectSeq2(notes, LAMBDA e : e[1] = t) IN
    \A a \in 1..Len(s) : IsOn(s[a]) =>
       \A b \in (a + 1)..Len(s) : ~(IsOff(s[b]) /\ s[a][2] = s[b][2] /\ s[a][5] = s[b][5] /\ s[a][6] = s[b][6])
NoZeroChord(r, d) == \A i \in 1..Len(d) : d[i].rest \/ Lo(r.division, d[i]) > 0
\* the timing law is stated on the single-track rendering; for N > 1 the note events, merged, must be the same
C02Ok(r) == LET d == Eff(r.doc, r.flags)  cidx == ChordIdxOf(d)
             single == IF r.tracks = 1 THEN r.ev ELSE r.ev1
             notes == SelectSeq2(single, IsNote)  runs == Runs(notes) IN
         /\ r.ok /\ r.ok1 /\ RunsShape(runs, cidx)
         /\ \E ch \in Choices(r.division, d) : LET st == StartsOf(r, d, ch) IN
              \A k \in 1..Len(cidx) :
                 LET i == cidx[k]  ons == runs[2 * k - 1]  offs == runs[2 * k] IN
                 /\ Ticks(ons) = {st[i]}                 \* all strikes at the instance start (first instance at 0)
                 /\ Ticks(offs) = {st[i + 1]}            \* all releases at its end = start of the next instance
                 /\ BagOfSeq(Keys(offs)) = BagOfSeq(Keys(ons))
         \* (a chord that rounds to 0 ticks strikes and releases at the same tick, strike first: the rule is about different chords)
         /\ (NoZeroChord(r, d) => ReleaseBeforeStrike(r, SelectSeq2(r.ev, IsNote)))
         /\ (r.tracks > 1 => LET a == SelectSeq2(r.ev, IsNote) IN
                               BagOfSeq([j \in 1..Len(a) |-> Strip(a[j])]) = BagOfSeq([j \in 1..Len(notes) |-> Strip(notes[j])]))

\* ------------------------------------------------------------------ C06
Merged(ev) == LET s == SelectSeq2(ev, LAMBDA e : ~IsEOT(e)) IN BagOfSeq([j \in 1..Len(s) |-> Strip(s[j])])
C06Ok(r) == LET d == Eff(r.doc, r.flags)  eots == SelectSeq2(r.ev, IsEOT)  eots1 == SelectSeq2(r.ev1, IsEOT) IN
         /\ r.ok /\ r.ok1
         /\ Merged(r.ev) = Merged(r.ev1)                        \* same events at the same ticks, whatever the distribution
         /\ Len(eots) = r.tracks /\ Len(eots1) = 1
         /\ \E ch \in Choices(r.division, d) : LET total == StartsOf(r, d, ch)[Len(d) + 1] IN
              /\ \A j \in 1..r.tracks : eots[j][2] = total     \* every track ends when the piece ends
              /\ eots1[1][2] = total

\* ------------------------------------------------------------------ C07
DynRank(s) == CASE s = "pp" -> 1 [] s = "p" -> 2 [] s = "mp" -> 3 [] s = "mf" -> 4 [] s = "f" -> 5 [] s = "ff" -> 6 [] OTHER -> 0
VelocityOk(r, d) ==
  r.tracks = 1 =>
    LET cidx == ChordIdxOf(d)  runs == Runs(SelectSeq2(r.ev, IsNote))
        dyn == [k \in 1..Len(cidx) |-> DynInForce(d, cidx[k])]
        vel == [k \in 1..Len(cidx) |-> Vels(runs[2 * k - 1])] IN
    /\ RunsShape(runs, cidx)
    /\ \A k \in 1..Len(cidx) : Cardinality(vel[k]) = 1
    /\ \A j, k \in 1..Len(cidx) :
         /\ (dyn[j] = dyn[k] => vel[j] = vel[k])                                  \* a dynamic holds for all following notes
         /\ (DynRank(dyn[j]) > 0 /\ DynRank(dyn[k]) > DynRank(dyn[j])
               => \A x \in vel[j], y \in vel[k] : y > x)                         \* louder never quieter
C07Ok(r) == LET d == Eff(r.doc, r.flags)  ctl == SelectSeq2(r.ev, IsControl)  dem == Demands(d) IN
         /\ r.ok
         /\ Len(ctl) = Cardinality(dem)                     \* nothing but the demanded control events
         /\ \E ch \in Choices(r.division, d) : LET st == StartsOf(r, d, ch) IN
              \A dm \in dem : \E j \in 1..Len(ctl) :
                    /\ ctl[j][2] = st[dm[1]]                                   \* at the start of its instance
                    /\ Satisfies(ctl[j], dm)                                   \* with the written value
                    /\ (dm[2] \in {mTEMPO, mMETER, mKEYSIG} => ctl[j][1] = 0)
         /\ VelocityOk(r, d)
=============================================================================
