SPECIFICATION Spec
INVARIANTS DriverClaim Inv LongInv
CHECK_DEADLOCK FALSE
