SPECIFICATION Spec
INVARIANTS DriverClaim Inv LongInv RegenInv
CHECK_DEADLOCK FALSE
