SPECIFICATION Spec
INVARIANTS DriverClaim Inv
CHECK_DEADLOCK FALSE
