------------------------------ MODULE TheoryMC ------------------------------
(***************************************************************************)
(* Model-checks the internal consistency of the "what" layer: every state  *)
(* is one (key, interval) pair; TLC evaluates the theorems of music theory *)
(* that the property oracles rely on as invariants over all of them.       *)
(***************************************************************************)
EXTENDS Theory, TLC
CONSTANT MaxN
VARIABLES key, iv
Intervals == {i \in [n : 1..MaxN, q : Qualities] : ValidInterval(i)}
KeyC == [l |-> 0, a |-> 0, minor |-> FALSE]
Init == \/ key \in AllKeys /\ iv = P1
        \/ key = KeyC /\ iv \in Intervals
Next == UNCHANGED <<key, iv>>
Spec == Init /\ [][Next]_<<key, iv>>

\* C13: the two definitions of a scale agree; each letter once, starting on the tonic
ScaleAgrees == Writable(key) => ScaleNotes(key) = ScaleNotesBySteps(key)
LettersOnce == /\ {ScaleNotes(key)[i].l : i \in 1..7} = 0..6
               /\ ScaleNotes(key)[1] = [l |-> key.l, a |-> key.a] \/ ~Writable(key)
StepsRight == Writable(key) =>
    \A i \in 1..7 : LET a == ScaleNotes(key)[i]  b == ScaleNotes(key)[(i % 7) + 1] IN
                    (NotePitch(b) - NotePitch(a)) % 12 = StepPattern(key)[i]
\* relative major/minor share notes and signature
RelativeOf(k) == IF k.minor THEN ScaleNotes(k)[3] ELSE ScaleNotes(k)[6]
RelativeShares ==
   Writable(key) =>
     LET r == RelativeOf(key)  rk == [l |-> r.l, a |-> r.a, minor |-> ~key.minor] IN
     /\ Signature(rk) = Signature(key)
     /\ Range(ScaleNotes(rk)) = Range(ScaleNotes(key))
SupportedCount == Cardinality(SupportedKeys) = 28
SharpFlatMirror == \A j \in 1..7 : SharpOrder[j] = FlatOrder[8 - j]
AlteredAreFirstN ==
   Writable(key) => LET s == Signature(key) IN
     {n.l : n \in {x \in Range(ScaleNotes(key)) : x.a # 0}} =
       (IF s > 0 THEN {SharpOrder[j] : j \in 1..s} ELSE IF s < 0 THEN {FlatOrder[j] : j \in 1..(-s)} ELSE {})
\* C15: the two size definitions agree; notation prints and parses back
SizeAgrees == Size(iv) = Size2(iv)
NotationRoundTrip == LET p == ParseInterval(PrintInterval(iv)) IN p.ok /\ p.iv = iv
InvalidRejected == \A n \in 1..MaxN : ~ValidInterval([n |-> n, q |-> IF PerfectClass(n) THEN "M" ELSE "P"])
\* C17: harmonising the scale by stacked thirds gives the textbook qualities
MajorTriads   == <<"", "m", "m", "", "", "m", "dim">>
MajorSevenths == <<"maj7", "m7", "m7", "maj7", "7", "m7", "m7b5">>
MinorTriads   == <<"m", "dim", "", "m", "m", "", "">>
MinorSevenths == <<"m7", "m7b5", "maj7", "m7", "m7", "maj7", "7">>
HarmoniseRight ==
   \A i \in 1..7 :
      /\ TriadSymbol(HarmoniseTones(key, i, 3)) = (IF key.minor THEN MinorTriads ELSE MajorTriads)[i]
      /\ SeventhSymbol(HarmoniseTones(key, i, 4)) = (IF key.minor THEN MinorSevenths ELSE MajorSevenths)[i]
\* every diatonic chord tone is a scale tone
DiatonicInsideScale ==
   Writable(key) => \A i \in 1..7 : \A t \in HarmoniseTones(key, i, 4) :
       (Pc(ScaleNotes(key)[i]) + t) % 12 \in {Pc(n) : n \in Range(ScaleNotes(key))}
=============================================================================
