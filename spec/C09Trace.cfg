SPECIFICATION Spec
INVARIANTS ProtocolInv RefusedInv CoverageInv
CHECK_DEADLOCK FALSE
