SPECIFICATION Spec
INVARIANT TypeOK
CHECK_DEADLOCK FALSE
