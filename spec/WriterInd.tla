------------------------------ MODULE WriterInd ------------------------------
(***************************************************************************)
(* Inductive form of Writer.tla's ClockInv / EOTInv for UNBOUNDED call     *)
(* sequences and unbounded deltas (Apalache; extra evidence for C06, the   *)
(* verdicts come from TLC).  The per-track op lists are abstracted to      *)
(* their sums: tsum[t] = sum of the deltas queued on track t; ck = time of *)
(* the last emitted event.  One step = one TrackSet.Add (the primitive all *)
(* writer calls are made of), a Rest, or the Close distribution.            *)
(***************************************************************************)
EXTENDS Integers
N == 5
Tracks == 0..(N - 1)
VARIABLES
  \* @type: Int;
  wpend,
  \* @type: Int -> Int;
  tpend,
  \* @type: Int -> Int;
  tsum,
  \* @type: Int;
  ck,
  \* @type: Bool;
  closed

Init == /\ wpend = 0 /\ tpend = [t \in Tracks |-> 0] /\ tsum = [t \in Tracks |-> 0] /\ ck = 0 /\ closed = FALSE
\* TrackSet.Add of an op with delta d on track t
Add(t, d) == /\ tpend' = [u \in Tracks |-> IF u = t THEN 0 ELSE tpend[u] + d]
             /\ tsum' = [tsum EXCEPT ![t] = @ + d + tpend[t]]
             /\ ck' = ck + d
\* an event that consumes the writer's pending delta (meta events, the first note-on of a chord)
AddPending == \E t \in Tracks : ~closed /\ Add(t, wpend) /\ wpend' = 0 /\ UNCHANGED closed
\* an event with an explicit delta (0 for the other keys of a chord, the length for the first note-off)
AddDelta == \E t \in Tracks : \E d \in Nat : ~closed /\ Add(t, d) /\ UNCHANGED <<wpend, closed>>
Rest == \E k \in Nat : ~closed /\ wpend' = wpend + k /\ UNCHANGED <<tpend, tsum, ck, closed>>
Close == /\ ~closed
         /\ tsum' = [t \in Tracks |-> tsum[t] + wpend + tpend[t]]
         /\ tpend' = [t \in Tracks |-> 0] /\ ck' = ck + wpend /\ wpend' = 0 /\ closed' = TRUE
Next == AddPending \/ AddDelta \/ Rest \/ Close

TypeOK == /\ wpend \in Nat /\ ck \in Nat /\ closed \in BOOLEAN
          /\ tpend \in [Tracks -> Nat] /\ tsum \in [Tracks -> Nat]
\* every track's materialised + pending time equals the global clock; after Close every track ends at it
IndInv == /\ TypeOK
          /\ \A t \in Tracks : tsum[t] + tpend[t] = ck
          /\ (closed => (wpend = 0 /\ \A t \in Tracks : tpend[t] = 0))
EOTInv == closed => \A t \in Tracks : tsum[t] = ck
IndInit == IndInv
=============================================================================
