------------------------------ MODULE C14Trace ------------------------------
(* C14 -- every `info key conv --key K -c CHAIN` run of the real binary: the printed set of keys must be
   every supported spelling of the key class obtained by folding the chain through pitch arithmetic. *)
EXTENDS Circle, Json, TLC
Recs == ndJsonDeserialize("records.ndjson")
VARIABLE l
Init == l = 1
Next == l <= Len(Recs) /\ l' = l + 1
Spec == Init /\ [][Next]_l
NoDup(s) == \A i, j \in 1..Len(s) : i # j => s[i] # s[j]
ChainOk(r) ==
  LET pk == ParseKey(r.key)
      target == Fold(r.chain, AbsOf(pk.k))
  IN /\ pk.ok /\ Supported(pk.k) /\ \A i \in 1..Len(r.chain) : r.chain[i] \in Convs
     /\ r.terminated /\ r.ok                       \* every chain of any length succeeds
     /\ \A i \in 1..Len(r.out) : ParseKey(r.out[i]).ok
     /\ LET printed == {ParseKey(r.out[i]).k : i \in 1..Len(r.out)} IN
        /\ Spellings(target) \subseteq printed                                    \* every spelling of the 28 keys the property names ...
        /\ \A k \in printed : KeyPc(k) = target.pc /\ k.minor = target.minor        \* ... and nothing that is not a spelling of the target
                                                                                 \* (a crd that supports more keys, e.g. Abm, lists more)
\* very long chains are given run-length encoded: <<letter, count>> segments.  n equal steps are n mod 12 dominants /
\* subdominants (twelve fifths return to the start: CircleMC) or n mod 2 relatives / parallels (involutions)
Period(c) == IF c \in {"d", "s"} THEN 12 ELSE 2
RECURSIVE FoldRuns(_, _)
FoldRuns(runs, s) == IF runs = <<>> THEN s ELSE FoldRuns(Tail(runs), Iter(Head(runs)[1], Head(runs)[2] % Period(Head(runs)[1]), s))
LongChainOk(r) ==
  LET pk == ParseKey(r.key)
      target == FoldRuns(r.runs, AbsOf(pk.k))
  IN /\ pk.ok /\ Supported(pk.k) /\ \A i \in 1..Len(r.runs) : r.runs[i][1] \in Convs /\ r.runs[i][2] >= 0
     /\ r.terminated /\ r.ok                       \* every chain of any length succeeds
     /\ \A i \in 1..Len(r.out) : ParseKey(r.out[i]).ok
     /\ LET printed == {ParseKey(r.out[i]).k : i \in 1..Len(r.out)} IN
        /\ Spellings(target) \subseteq printed                                    \* every spelling of the 28 keys the property names ...
        /\ \A k \in printed : KeyPc(k) = target.pc /\ k.minor = target.minor        \* ... and nothing that is not a spelling of the target
                                                                                 \* (a crd that supports more keys, e.g. Abm, lists more)
RecOk(r) == CASE r.kind = "skipped" -> TRUE [] r.kind = "chain" -> ChainOk(r) [] r.kind = "longchain" -> LongChainOk(r) [] OTHER -> FALSE
Inv == l <= Len(Recs) => RecOk(Recs[l])
=============================================================================
