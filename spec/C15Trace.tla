------------------------------ MODULE C15Trace ------------------------------
(***************************************************************************)
(* C15 -- every interval name has its textbook size, prints and parses     *)
(* back, and `info attr|chord describe` reports root + interval.            *)
(***************************************************************************)
EXTENDS Theory, Json, TLC
Recs == ndJsonDeserialize("records.ndjson")
VARIABLE l
Init == l = 1
Next == l <= Len(Recs) /\ l' = l + 1
Spec == Init /\ [][Next]_l

NaturalPcs == {0, 2, 4, 5, 7, 9, 11}
\* the note reported for root + iv
AppliedOk(o, root, iv, sharp) ==
  LET total == NotePitch(root) + Size(iv)
      pc == total % 12
      pa == ParseNote(o.applied)   app == [l |-> pa.l, a |-> pa.a]
  IN /\ o.semitone = Size(iv)
     /\ o.swo = Size(iv) % 12
     /\ o.root = PrintNote(root)
     /\ pa.ok /\ Pc(app) = pc /\ NotePitch(app) \in 0..11     \* no B# / Cb: the octave split is by pitch
     /\ (pc \in NaturalPcs => app.a = 0)                        \* natural when possible
     /\ (pc \notin NaturalPcs => app.a = (IF sharp THEN 1 ELSE -1))   \* else the requested accidental
     /\ o.octave = total \div 12                                \* floor: Cb + unison lies an octave below

\* "reads back as the same interval": same number, same size (which of two equivalent notations is printed -- b5 or bb5 for
\* the diminished fifth -- is not the property's business)
SameIv(printed, iv) == LET q == ParseInterval(printed) IN q.ok /\ q.iv.n = iv.n /\ Size(q.iv) = Size(iv)
\* the diminished and doubly diminished unison: whether "that quality exists for n = 1" is a matter of taste; no claim
DontCare(iv) == iv.n = 1 /\ iv.q \in {"d", "dd"}

DescribeOk(r) ==
  LET p == ParseInterval(r.degree)   pr == ParseNote(r.root)   root == [l |-> pr.l, a |-> pr.a] IN
  /\ p.ok /\ pr.ok /\ r.terminated
  /\ (DontCare(p.iv) \/
      /\ r.ok                                         \* every interval the notation expresses exists
      /\ SameIv(r.out.printed, p.iv)                   \* its printed notation reads back as the same interval
      /\ AppliedOk(r.out, root, p.iv, r.sharp))

\* strings in the notation's grammar (marks before the number as in YAML, or after it as in chord text)
Canonical(s) == LET k == MarkRun(s) d == SubSeq(s, k + 1, Len(s)) IN
                  SubSeq(s, 1, k) \in ValidMarks /\ AllDigits(d) /\ d[1] # 48
CanonicalPost(s) == LET k == DigitRun(s) IN k >= 1 /\ s[1] # 48 /\ SubSeq(s, k + 1, Len(s)) \in ValidMarks
                       /\ \A i \in (k + 1)..Len(s) : s[i] \in {chFlat, chSharp}
NotationOk(r) ==
  LET a == ParseInterval(r.s)  b == ParseIntervalPostfix(r.s) IN
  /\ r.terminated
  /\ (Canonical(r.s) /\ ~DontCare(a.iv)) => r.ok /\ SameIv(r.printed, a.iv)
  /\ (CanonicalPost(r.s) /\ r.ok /\ ~DontCare(b.iv)) => SameIv(r.printed, b.iv)     \* (the chord-text order of marks need not be accepted here)
  /\ r.ok => ParseInterval(r.printed).ok /\ ValidInterval(ParseInterval(r.printed).iv)   \* never prints something unreadable

NameOf(q, n) == q \o ToString(n)
GenQualities == <<"Major", "Minor", "Perfect", "Augmented", "Diminished">>
QOfName == [Major |-> "M", Minor |-> "m", Perfect |-> "P", Augmented |-> "A", Diminished |-> "d"]
GenAttrOk(r) ==
  /\ r.ok
  \* every generated attribute is a valid interval; one whose name is an English interval name is the interval it names
  /\ \A i \in 1..Len(r.attrs) : LET p == ParseInterval(r.attrs[i].degree) IN
        /\ p.ok /\ ValidInterval(p.iv)
        /\ \A j \in 1..5 : r.attrs[i].name = NameOf(GenQualities[j], p.iv.n) => Size(p.iv) = Size([n |-> p.iv.n, q |-> QOfName[GenQualities[j]]])
  \* (which intervals `gen attr` generates, how often and up to where is not C15's sentence -- that the embedded list is
  \* what it prints is C16's: second audit)

ChordDescOk(r) ==
  LET pr == ParseNote(r.root)  root == [l |-> pr.l, a |-> pr.a] IN
  /\ pr.ok /\ r.terminated /\ r.ok
  /\ r.outRoot = PrintNote(root)          \* (under which entry's header an alias is described is not stated)
  /\ {r.attrs[i].semitone : i \in 1..Len(r.attrs)} = ChordTones(r.sym)
  /\ \A i \in 1..Len(r.attrs) : LET p == ParseInterval(r.attrs[i].printed) IN
        p.ok /\ AppliedOk(r.attrs[i], root, p.iv, r.sharp)

\* the Degree API: an interval exists iff the quality exists for the number; its size, its notation and the parse-back
DegreeApiOk(r) ==
  LET iv == [n |-> r.n, q |-> r.q] IN
  /\ (DontCare(iv) \/ r.exists = (r.n >= 1 /\ ValidInterval(iv)))           \* impossible combinations such as a major fourth are rejected
  /\ (r.exists /\ ~DontCare(iv)) =>
                  /\ r.semitone = Size(iv)
                  /\ r.parsedOk /\ r.parsedN = r.n /\ r.parsedSemitone = Size(iv)     \* reads back as the same interval
                  /\ SameIv(r.printed, iv)

\* the spelling of the root: a letter with at most one accidental, written # / b or with the Unicode signs the chord text
\* equally accepts, is that note; a root crd accepts is never read as a different note, and a string that is no note name
\* has no "root + interval" to report (the chord form may also refuse the Unicode signs: then nothing is claimed)
\* a root written as a letter followed by accidental signs (# b and the Unicode signs): the note it denotes, as a pitch class
AccSigns == {chSharp, chFlat, 9839, 9837}
IsSpelling(s) == Len(s) >= 1 /\ IsLetterChar(s[1]) /\ \A i \in 2..Len(s) : s[i] \in AccSigns
SpellingPc(s) == LET RECURSIVE A(_)  A(i) == IF i > Len(s) THEN 0 ELSE (IF s[i] \in {chSharp, 9839} THEN 1 ELSE -1) + A(i + 1)
                 IN (LetterPc[LetterOfChar(s[1]) + 1] + A(2) + 24) % 12
ParseNoteU(s) ==
  IF Len(s) = 1 /\ IsLetterChar(s[1]) THEN [ok |-> TRUE, l |-> LetterOfChar(s[1]), a |-> 0]
  ELSE IF Len(s) = 2 /\ IsLetterChar(s[1]) /\ s[2] \in AccSigns
       THEN [ok |-> TRUE, l |-> LetterOfChar(s[1]), a |-> IF s[2] \in {chSharp, 9839} THEN 1 ELSE -1]
  ELSE [ok |-> FALSE, l |-> 0, a |-> 0]
RootSpellOk(r) ==
  LET pr == ParseNoteU(r.root)  root == [l |-> pr.l, a |-> pr.a]
      third == IF r.via = "attr" THEN 4 ELSE 3
      pa == ParseNote(r.applied) IN
  /\ r.terminated /\ ~r.panic
  \* an accepted spelling is never read as a different note (a string that is no spelling -- blanks, other text -- is not
  \* the property's business: it may be refused, trimmed, whatever)
  /\ ((r.ok /\ IsSpelling(r.root)) => pa.ok /\ Pc([l |-> pa.l, a |-> pa.a]) = (SpellingPc(r.root) + third) % 12)
  /\ ((r.ok /\ pr.ok) => r.outRoot = PrintNote(root))                \* a plain note name is reported as written
  /\ ((pr.ok /\ \A i \in 1..Len(r.root) : r.root[i] < 128) => r.ok)  \* the ASCII spellings are always accepted

RecOk(r) == CASE r.kind = "skipped" -> TRUE
              [] r.kind = "rootspell" -> RootSpellOk(r)
              [] r.kind = "baddesc" -> r.terminated /\ ~r.panic     \* no interval, no "root + interval" to report: refused or skipped, never a crash
              [] r.kind = "degree" -> DegreeApiOk(r)
              [] r.kind = "describe" -> DescribeOk(r)
              [] r.kind = "notation" -> NotationOk(r)
              [] r.kind = "genattr" -> GenAttrOk(r)
              [] r.kind = "chorddesc" -> ChordDescOk(r)
              [] OTHER -> FALSE
Inv == l <= Len(Recs) => RecOk(Recs[l])
=============================================================================
