CONSTANTS N = 3
 L = 4
SPECIFICATION MCSpec
INVARIANTS ClockInv EOTInv Refines MetaOnTrack0
CHECK_DEADLOCK FALSE
