------------------------------- MODULE Lexer -------------------------------
(***************************************************************************)
(* Tokenisation of chord text (properties C04, C09, C11).                  *)
(*                                                                          *)
(* Documented rules: white space and `;` comments (to the end of the line) *)
(* between tokens are ignored; `_` introduces a chord symbol; `{` switches  *)
(* to key=value mode until `}`, where a text runs up to the next one of     *)
(* `{ } = ,`; a chord symbol runs up to `/ [ _ ; =` or white space.         *)
(*                                                                          *)
(* The lexer is a state machine: one step = one token request ("scan").    *)
(* State: pos (runes consumed), sym (a symbol must follow), meta (inside    *)
(* braces), toks (tokens produced: [t |-> type, v |-> text]), done, err.    *)
(* The same step operator is used (a) by LexerMC.tla to model-check         *)
(* progress/termination and mode discipline over all short strings and     *)
(* (b) as the oracle Lex(s) for observations of the real lexer.            *)
(* Text is a sequence of Unicode code points.                               *)
(***************************************************************************)
EXTENDS Integers, Sequences, FiniteSets
EOFc == -1
SpaceChars == {9, 10, 11, 12, 13, 32, 133, 160, 5760, 8232, 8233, 8239, 8287, 12288} \cup (8192..8202)
IsSpaceC(c) == c \in SpaceChars
\* The statements name spaces, tabs and newlines as blanks; the code takes every Unicode white space.  Texts that contain
\* one of the other blanks, an invisible character (byte-order mark, zero-width space, soft hyphen, word joiner) or a digit
\* of another script are "exotic": a crd that treats those characters differently (blanks only ASCII, a BOM skipped, ...)
\* still is what the statements describe, so for such texts the checks claim agreement only where both sides accept.
PlainBlanks == {9, 10, 13, 32}
\* (... and the control characters: nothing says whether a BEL or a NUL may stand in a symbol or a text)
ExoticChars == (SpaceChars \ PlainBlanks) \cup {65279, 8203, 8204, 8205, 173, 8288} \cup (65296..65305) \cup (2406..2415) \cup (1632..1641)
               \cup (0..8) \cup (14..31) \cup {127}
Exotic(s) == \E i \in 1..Len(s) : s[i] \in ExoticChars
\* blanks around a setting's name or value inside {...}: whether they belong to the token is not documented
RECURSIVE TrimL(_)
TrimL(s) == IF s # <<>> /\ s[1] \in SpaceChars THEN TrimL(Tail(s)) ELSE s
RECURSIVE TrimR(_)
TrimR(s) == IF s # <<>> /\ s[Len(s)] \in SpaceChars THEN TrimR(SubSeq(s, 1, Len(s) - 1)) ELSE s
Trim(s) == TrimL(TrimR(s))
IsDigitC(c) == c >= 48 /\ c <= 57
SymbolStop == {47, 91, 95, 59, 61}            \* / [ _ ; =
MetaStop == {123, 125, 61, 44}                \* { } = ,
IsSymbolRune(c) == c # EOFc /\ c \notin SymbolStop /\ ~IsSpaceC(c)
IsMetaRune(c) == c # EOFc /\ c \notin MetaStop
At(s, p) == IF p + 1 <= Len(s) THEN s[p + 1] ELSE EOFc           \* rune after p consumed runes
\* end of the maximal run of runes satisfying P, starting after p consumed runes
RunEnd(s, p, P(_)) == LET RECURSIVE R(_)  R(q) == IF P(At(s, q)) THEN R(q + 1) ELSE q IN R(p)
Single == [x \in {47, 91, 93, 123, 125, 61, 44, 35, 9839, 98, 9837, 95, 82, 67, 68, 69, 70, 71, 65, 66} |->
            CASE x = 47 -> "SLASH" [] x = 91 -> "LBRA" [] x = 93 -> "RBRA" [] x = 123 -> "LCBRA" [] x = 125 -> "RCBRA"
              [] x = 61 -> "EQUAL" [] x = 44 -> "COMMA" [] x \in {35, 9839} -> "SHARP" [] x \in {98, 9837} -> "FLAT"
              [] x = 95 -> "UNDERSCORE" [] x = 82 -> "REST" [] OTHER -> "SYLLABLE"]

LexInit == [pos |-> 0, sym |-> FALSE, meta |-> FALSE, toks |-> <<>>, done |-> FALSE, err |-> FALSE, skipped |-> 0]
\* a token also remembers where it starts (the end of the previous token: trivia before a token belongs to its span) and ends
LastEnd(st) == IF st.toks = <<>> THEN 0 ELSE st.toks[Len(st.toks)].end
TokAt(s, st, t, from, to) == [t |-> t, v |-> SubSeq(s, from + 1, to), start |-> LastEnd(st), end |-> to]
\* one token request
ScanStep(s, st) ==
  LET p == RunEnd(s, st.pos, IsSpaceC)           \* leading white space is trivia in every mode
      c == At(s, p)
      skip == st.skipped + (p - st.pos)
  IN
  IF st.meta /\ IsMetaRune(c)
  THEN LET q == RunEnd(s, p, IsMetaRune) IN [st EXCEPT !.pos = q, !.toks = Append(@, TokAt(s, st, "METADATA", p, q)), !.skipped = skip]
  ELSE IF st.sym
  THEN IF IsSymbolRune(c)
       THEN LET q == RunEnd(s, p, IsSymbolRune) IN
            [st EXCEPT !.pos = q, !.sym = FALSE, !.toks = Append(@, TokAt(s, st, "SYMBOL", p, q)), !.skipped = skip]
       ELSE [st EXCEPT !.pos = p, !.done = TRUE, !.err = TRUE, !.skipped = skip]       \* `_` without a symbol
  ELSE IF c = 59                                      \* ; comment: up to, not including, the newline (or the end)
  THEN LET q == RunEnd(s, p, LAMBDA x : x # 10 /\ x # EOFc) IN [st EXCEPT !.pos = q, !.skipped = skip + (q - p)]
  ELSE IF c \in DOMAIN Single
  THEN [st EXCEPT !.pos = p + 1, !.toks = Append(@, TokAt(s, st, Single[c], p, p + 1)), !.skipped = skip,
                  !.sym = (c = 95) \/ @,
                  !.meta = IF c = 123 THEN TRUE ELSE IF c = 125 THEN FALSE ELSE @]
  ELSE IF IsDigitC(c)
  THEN LET q == RunEnd(s, p, IsDigitC) IN [st EXCEPT !.pos = q, !.toks = Append(@, TokAt(s, st, "NUMBER", p, q)), !.skipped = skip]
  ELSE IF IsSymbolRune(c)
  THEN LET q == RunEnd(s, p, IsSymbolRune) IN [st EXCEPT !.pos = q, !.toks = Append(@, TokAt(s, st, "SYMBOL", p, q)), !.skipped = skip]
  ELSE [st EXCEPT !.pos = p, !.done = TRUE, !.skipped = skip, !.err = (c # EOFc)]       \* end of input

RECURSIVE LexFrom(_, _)
LexFrom(s, st) == IF st.done THEN st ELSE LexFrom(s, ScanStep(s, st))
Lex(s) == LexFrom(s, LexInit)
\* source position after p consumed runes: <<line (from 1), column (runes since the last newline), offset (UTF-8 bytes)>>
Utf8Len(c) == IF c < 128 THEN 1 ELSE IF c < 2048 THEN 2 ELSE IF c < 65536 THEN 3 ELSE 4
PosAfter(s, p) == LET nl == {i \in 1..p : s[i] = 10}
                      last == IF nl = {} THEN 0 ELSE CHOOSE i \in nl : \A j \in nl : j <= i
                      RECURSIVE B(_)  B(i) == IF i > p THEN 0 ELSE Utf8Len(s[i]) + B(i + 1)
                  IN <<1 + Cardinality(nl), p - last, B(1)>>
TokTypes(toks) == [i \in 1..Len(toks) |-> toks[i].t]
=============================================================================
