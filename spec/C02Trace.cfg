SPECIFICATION Spec
INVARIANT C02Inv
CHECK_DEADLOCK FALSE
