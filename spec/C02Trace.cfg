SPECIFICATION Spec
INVARIANT C02Inv
INVARIANT AbsurdInv
CHECK_DEADLOCK FALSE
