SPECIFICATION Spec
INVARIANTS ResolvesAll RefusedIff
CHECK_DEADLOCK FALSE
