------------------------------- MODULE RunsMC -------------------------------
(* Enumerates the nonsense x channel x stage matrix of Runs.tla: one state per cell; sanity of the table
   (every kind of nonsense the property lists is refused somewhere on every channel it can arrive on). *)
EXTENDS Runs, TLC
VARIABLE cell
Init == cell \in Cells
Next == UNCHANGED cell
Spec == Init /\ [][Next]_cell
\* every kind is refused at some stage
EveryKindRefused == \A n \in Nonsense : \E ch \in Channels : MustFailAt(n, ch) # {}
\* whatever text conv lets through is refused by every write command
PipedClosed == \A n \in Nonsense : (MustFailAt(n, "text") # TextConv /\ n \notin {"no durations", "unknown modifier"})
                  => (MustFailAt(n, "piped") = WriteAll \/ TCS \in MustFailAt(n, "text"))
LiveCount == Cardinality(LiveCells) > 60
TypeOK == cell \in Cells
ASSUME EveryKindRefused
ASSUME LiveCount
=============================================================================
