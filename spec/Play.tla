-------------------------------- MODULE Play --------------------------------
(***************************************************************************)
(* The "how" layer of playing an instances document (properties C01 C07):  *)
(* play.MIDIWriter.Write as a state machine over five cells                *)
(*   cell = [v |-> current value, u |-> "needs emitting"]    (util.Opt)    *)
(* for bpm, meter, key, velocity and metadata.  Per instance:              *)
(*   Update  -- every setting the instance carries overwrites its cell and *)
(*              marks it;                                                   *)
(*   Flush   -- every marked cell is emitted (tempo, meter, key signature,  *)
(*              then text / lyric / marker) and unmarked; velocity is      *)
(*              never emitted, it is read when a chord is struck;           *)
(*   Strike  -- a Rest call, or a Note call with the key and the velocity  *)
(*              in force.                                                   *)
(* All cells start marked with the defaults (100 bpm, 4/4, C, mp, no       *)
(* texts), which is why tempo/meter/key are stated at tick 0.               *)
(*                                                                          *)
(* `calls` is the sequence of abstract writer calls made so far:            *)
(*   <<"tempo", bpm>> <<"meter", m>> <<"key", k>> <<"text"|"lyric"|"marker", bytes>>   *)
(*   <<"rest", i>> <<"note", i, key in force, dynamic in force>> <<"close">> *)
(* PlayMC.tla checks that this mechanism computes exactly the declarative  *)
(* meaning of Piece.tla (Demands, KeyInForce, DynInForce) for every small  *)
(* document; PlayTrace.tla validates call traces recorded from the real    *)
(* play package.                                                            *)
(***************************************************************************)
EXTENDS Piece
VARIABLES doc, i, phase, cells, calls
pvars == <<doc, i, phase, cells, calls>>

Cell(v) == [v |-> v, u |-> TRUE]
InitCells == [bpm |-> Cell(100), meter |-> Cell(<<4, 4>>), key |-> Cell(KeyC), vel |-> Cell("default"),
              meta |-> Cell([txt |-> <<>>, lic |-> <<>>, mrk |-> <<>>])]
HasMeta(x) == x.txt # <<>> \/ x.lic # <<>> \/ x.mrk # <<>>

PInit(d) == doc = d /\ i = 1 /\ phase = "update" /\ cells = InitCells /\ calls = <<>>
\* args.update(instance)
Update == /\ phase = "update" /\ i <= Len(doc)
          /\ LET x == doc[i] IN
             cells' = [cells EXCEPT !.bpm   = IF x.bpm # 0 THEN Cell(x.bpm) ELSE @,
                                    !.meter = IF x.meter # <<>> THEN Cell(x.meter) ELSE @,
                                    !.vel   = IF x.vel # "" THEN Cell(x.vel) ELSE @,
                                    !.key   = IF x.key # <<>> THEN Cell(x.key) ELSE @,
                                    !.meta  = IF HasMeta(x) THEN Cell([txt |-> x.txt, lic |-> x.lic, mrk |-> x.mrk]) ELSE @]
          /\ phase' = "flush" /\ UNCHANGED <<doc, i, calls>>
\* args.writeWhenUpdated(w)
Flush == /\ phase = "flush"
         /\ LET c == cells
                t == (IF c.bpm.u THEN << <<"tempo", c.bpm.v>> >> ELSE <<>>)
                     \o (IF c.meter.u THEN << <<"meter", c.meter.v>> >> ELSE <<>>)
                     \o (IF c.key.u THEN << <<"key", c.key.v>> >> ELSE <<>>)
                     \o (IF c.meta.u /\ c.meta.v.txt # <<>> THEN << <<"text", c.meta.v.txt>> >> ELSE <<>>)
                     \o (IF c.meta.u /\ c.meta.v.lic # <<>> THEN << <<"lyric", c.meta.v.lic>> >> ELSE <<>>)
                     \o (IF c.meta.u /\ c.meta.v.mrk # <<>> THEN << <<"marker", c.meta.v.mrk>> >> ELSE <<>>)
            IN calls' = calls \o t
         /\ cells' = [cells EXCEPT !.bpm.u = FALSE, !.meter.u = FALSE, !.key.u = FALSE, !.meta.u = FALSE]
         /\ phase' = "strike" /\ UNCHANGED <<doc, i>>
Strike == /\ phase = "strike"
          /\ calls' = Append(calls, IF doc[i].rest THEN <<"rest", i>> ELSE <<"note", i, cells.key.v, cells.vel.v>>)
          /\ i' = i + 1 /\ phase' = "update" /\ UNCHANGED <<doc, cells>>
CloseAll == /\ phase = "update" /\ i = Len(doc) + 1
            /\ calls' = Append(calls, <<"close">>) /\ phase' = "done" /\ UNCHANGED <<doc, i, cells>>
PNext == Update \/ Flush \/ Strike \/ CloseAll

\* ---- the declarative meaning (Piece.tla), as a call sequence
ControlsAt(d, k) ==
  LET dem == {x \in Demands(d) : x[1] = k}
      pick(ty, name) == IF \E x \in dem : x[2] = ty THEN << <<name, (CHOOSE x \in dem : x[2] = ty)[3]>> >> ELSE <<>>
  IN pick(mTEMPO, "tempo") \o pick(mMETER, "meter") \o pick(mKEYSIG, "key")
     \o pick(mTEXT, "text") \o pick(mLYRIC, "lyric") \o pick(mMARKER, "marker")
RECURSIVE MeaningFrom(_, _)
MeaningFrom(d, k) ==
  IF k > Len(d) THEN << <<"close">> >>
  ELSE ControlsAt(d, k)
       \o << IF d[k].rest THEN <<"rest", k>> ELSE <<"note", k, KeyInForce(d, k), DynInForce(d, k)>> >>
       \o MeaningFrom(d, k + 1)
Meaning(d) == MeaningFrom(d, 1)
=============================================================================
