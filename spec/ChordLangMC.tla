---------------------------- MODULE ChordLangMC ----------------------------
(* The hand-written recogniser (ChordLang.tla) and the grammar file's productions (Grammar.tla, whose
   sentences up to L tokens are in "sentences.ndjson") define the same language:
     - every token string of at most N tokens (exhaustive exploration, one state per string),
     - every grammar sentence of at most L tokens,
     - every single-token deletion / substitution / insertion of such a sentence (when still <= L tokens)
   is accepted by the recogniser iff it is a grammar sentence. *)
EXTENDS ChordLang, Json, TLC
CONSTANTS N, L
Sents == ndJsonDeserialize("sentences.ndjson")
SentSet == {Sents[i].toks : i \in 1..Len(Sents)}
Tokens == {"SYLLABLE", "SLASH", "LBRA", "RBRA", "COMMA", "SHARP", "FLAT", "NUMBER", "SYMBOL", "REST", "UNDERSCORE",
           "LCBRA", "RCBRA", "EQUAL", "METADATA"}
WithValues(w) == [i \in 1..Len(w) |-> [t |-> w[i], v |-> <<i>>]]
Accepts(w) == Parse(WithValues(w)).ok
VARIABLE w
Init == w = <<>>
Next == Len(w) < N /\ \E t \in Tokens : w' = Append(w, t)
Spec == Init /\ [][Next]_w
Agree == Accepts(w) <=> w \in SentSet
\* mutations of the grammar's sentences
Del(s, i) == SubSeq(s, 1, i - 1) \o SubSeq(s, i + 1, Len(s))
Sub(s, i, t) == [s EXCEPT ![i] = t]
Ins(s, i, t) == SubSeq(s, 1, i - 1) \o <<t>> \o SubSeq(s, i, Len(s))
ASSUME \A s \in SentSet : Accepts(s)
ASSUME \A s \in SentSet : \A i \in 1..Len(s) :
          /\ (Accepts(Del(s, i)) <=> Del(s, i) \in SentSet)
          /\ \A t \in Tokens : Accepts(Sub(s, i, t)) <=> Sub(s, i, t) \in SentSet
ASSUME \A s \in SentSet : Len(s) < L => \A i \in 1..(Len(s) + 1) : \A t \in Tokens :
          Accepts(Ins(s, i, t)) <=> Ins(s, i, t) \in SentSet
=============================================================================
