----------------------------- MODULE WriterSat -----------------------------
(***************************************************************************)
(* The writer's time bookkeeping in MACHINE arithmetic (properties C02,     *)
(* C06, C08; fix ec6f798).  Writer.tla counts ticks in the integers; the    *)
(* code counts them in uint32 words and the file format holds a delta time  *)
(* only up to Max = 2^28 - 1.  This module runs the machine state next to   *)
(* the ideal state of Writer.tla, action by action:                          *)
(*                                                                          *)
(*   NewTicks(k)   MIDIWriter.newTicks: a length above Max is clamped to    *)
(*                 Max + 1 ("cannot be written")                            *)
(*   Plus(a, b)    midix.addTicks: addition that saturates at the largest   *)
(*                 word W - 1 instead of wrapping round                      *)
(*   mw, mtp, mop  the machine counterparts of wpend, tpend, ops (deltas)   *)
(*   WriteTo       succeeds iff no queued delta exceeds Max (Track.Validate)*)
(*                                                                          *)
(* Faithful: every machine value m stands for its ideal value d exactly     *)
(* while d <= Max, and is above Max whenever d is.  Hence WriteTo refuses    *)
(* exactly the pieces some delta of which the format cannot hold, and every  *)
(* piece it writes has the ideal deltas (so ClockInv / EOTInv / Refines of  *)
(* Writer.tla carry over to the bytes).  The deviation WrapPlus (the code    *)
(* before the fix: a + b modulo W) breaks Faithful -- WriterSatDev.cfg.      *)
(***************************************************************************)
EXTENDS Writer, TLC
CONSTANTS W,          \* number of values of a machine word (2^32 in the code)
          Max,        \* largest delta time the file format holds (2^28 - 1)
          L,          \* number of writer calls explored
          K,          \* lengths 1..K (K > Max so that unwritable lengths occur)
          Wrap        \* TRUE: the deviation (wrapping addition, no clamp)
ASSUME Max + 1 < W

VARIABLES mw, mtp, mop, calls, outcome      \* outcome: "none" | "written" | "refused"
svars == <<wpend, tpend, ops, closed, now, tl, mw, mtp, mop, calls, outcome>>

NewTicks(k) == IF Wrap THEN k % W ELSE IF k > Max THEN Max + 1 ELSE k
Plus(a, b) == IF Wrap THEN (a + b) % W ELSE IF a + b >= W THEN W - 1 ELSE a + b

MSt == [tp |-> mtp, op |-> mop]
\* TrackSet.Add on machine words: Track.Add folds the pending delay into the op, the others are delayed
MAdd(st, t, d) == [tp |-> [u \in Tracks |-> IF u = t THEN 0 ELSE Plus(st.tp[u], d)],
                   op |-> [st.op EXCEPT ![t] = Append(@, Plus(d, st.tp[t]))]]
MSet(st) == mtp' = st.tp /\ mop' = st.op
RECURSIVE MAddKeys(_, _, _, _)
MAddKeys(st, n, j, first) == IF j > n THEN st ELSE MAddKeys(MAdd(st, Sel(j - 1), IF j = 1 THEN first ELSE 0), n, j + 1, first)

SInit == Init /\ mw = 0 /\ mtp = [t \in Tracks |-> 0] /\ mop = [t \in Tracks |-> <<>>] /\ calls = 0 /\ outcome = "none"

SMeta == Meta("tempo") /\ MSet(MAdd(MSt, 0, mw)) /\ mw' = 0
SRest(k) == Rest(k) /\ mw' = Plus(mw, NewTicks(k)) /\ UNCHANGED <<mtp, mop>>
SNote(k, n) == /\ Note(k, [j \in 1..n |-> 59 + j])
               /\ MSet(MAddKeys(MAddKeys(MSt, n, 1, mw), n, 1, NewTicks(k)))
               /\ mw' = 0
SClose == /\ Close
          /\ mop' = [t \in Tracks |-> Append(mop[t], Plus(mw, mtp[t]))]        \* Distribute: a copy of the op per track
          /\ mtp' = [t \in Tracks |-> 0] /\ mw' = 0
\* MIDIWriter.WriteTo: Track.Validate on every track, then the bytes
SWrite == /\ closed /\ outcome = "none"
          /\ outcome' = IF \A t \in Tracks : \A i \in 1..Len(mop[t]) : mop[t][i] <= Max THEN "written" ELSE "refused"
          /\ UNCHANGED <<wpend, tpend, ops, closed, now, tl, mw, mtp, mop, calls>>

SNext == \/ /\ calls < L /\ calls' = calls + 1 /\ UNCHANGED outcome
            /\ \/ SMeta
               \/ \E k \in 1..K : SRest(k)
               \/ \E k \in 1..K : \E n \in 1..2 : SNote(k, n)
         \/ SClose /\ UNCHANGED <<calls, outcome>>
         \/ SWrite
SSpec == SInit /\ [][SNext]_svars

\* ---- properties
Stands(m, d) == (d <= Max => m = d) /\ (d > Max => m > Max)
Faithful == /\ Stands(mw, wpend)
            /\ \A t \in Tracks : /\ Stands(mtp[t], tpend[t])
                                 /\ Len(mop[t]) = Len(ops[t])
                                 /\ \A i \in 1..Len(ops[t]) : Stands(mop[t][i], ops[t][i].d)
\* what is written has the ideal deltas, every one of which the format can hold; what is refused could not be written
WrittenRight == outcome = "written" => \A t \in Tracks : \A i \in 1..Len(ops[t]) : ops[t][i].d <= Max /\ mop[t][i] = ops[t][i].d
RefusedRight == outcome = "refused" => \E t \in Tracks : \E i \in 1..Len(ops[t]) : ops[t][i].d > Max
\* a piece the whole of which fits one delta time is always written (WriteProps!WithinLimit)
ShortIsWritten == (outcome # "none" /\ now <= Max) => outcome = "written"
=============================================================================
