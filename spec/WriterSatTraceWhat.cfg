CONSTANTS N = 3
 W = 64
 Max = 3
 L = 0
 K = 0
 Wrap = FALSE
SPECIFICATION TSpec
INVARIANTS ObservedOutcome ObservedTimelineSat
CHECK_DEADLOCK FALSE
