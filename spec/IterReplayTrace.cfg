SPECIFICATION Spec
INVARIANTS Conforms
CHECK_DEADLOCK FALSE
