SPECIFICATION Spec
INVARIANTS Conforms FullProbe
CHECK_DEADLOCK FALSE
