SPECIFICATION TSpec
INVARIANTS Conforms Complete NothingDropped
CHECK_DEADLOCK TRUE
