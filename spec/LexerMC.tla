------------------------------ MODULE LexerMC ------------------------------
(* The lexer mode machine, explored exhaustively: every input of at most K runes over a representative
   alphabet; one transition per token request. *)
EXTENDS Lexer, TLC
CONSTANT K
Alphabet == {67, 82, 47, 91, 93, 123, 125, 61, 44, 35, 98, 95, 49, 59, 32, 10, 109, 9837}
           \* C  R  /   [   ]   {    }    =   ,   #   b   _   1   ;  sp  nl   m    flat sign
VARIABLES s, st
vars == <<s, st>>
Inputs == UNION {[1..n -> Alphabet] : n \in 0..K}
Init == s \in Inputs /\ st = LexInit
Step == ~st.done /\ st' = ScanStep(s, st) /\ s' = s
Next == Step \/ (st.done /\ UNCHANGED vars)
Spec == Init /\ [][Next]_vars /\ WF_vars(Step)

\* named deviation (what the pinned tree did, NOT part of Spec): the comment loop's predicate stays true at end of
\* input, so a comment that no newline closes never lets the scan end. LexerDev.cfg must find the counterexample
\* of Terminates (a behaviour that stays at the same position forever).
HasNewlineAfter(p) == \E q \in (p + 1)..Len(s) : s[q] = 10
DevScanStep == LET p == RunEnd(s, st.pos, IsSpaceC) IN
               IF ~st.meta /\ ~st.sym /\ At(s, p) = 59 /\ ~HasNewlineAfter(p)
               THEN st                              \* the discard loop never returns: no step changes anything any more
               ELSE ScanStep(s, st)
DevStep == ~st.done /\ st' = DevScanStep /\ s' = s
DevSpec == Init /\ [][DevStep \/ (st.done /\ UNCHANGED vars)]_vars /\ WF_vars(DevStep)

RECURSIVE SumLen(_)
SumLen(toks) == IF toks = <<>> THEN 0 ELSE Len(Head(toks).v) + SumLen(Tail(toks))
LastOf(toks, types) == LET S == {i \in 1..Len(toks) : toks[i].t \in types} IN IF S = {} THEN 0 ELSE CHOOSE i \in S : \A j \in S : j <= i

\* every request consumes at least one rune or ends the scan: no input can make the lexer spin
Progress == [][st'.done \/ st'.pos > st.pos]_vars
Terminates == <>(st.done)
\* every consumed rune is either trivia or part of exactly one token: nothing is silently dropped
NothingDropped == st.pos = st.skipped + SumLen(st.toks) /\ st.pos <= Len(s)
\* the scan only ends at the end of the input, or with an error
EndsAtEnd == st.done /\ ~st.err => st.pos = Len(s)
\* the only error is `_` not followed by a symbol
OnlySymbolError == st.err => st.sym
\* mode discipline
SymMode == st.sym <=> (st.toks # <<>> /\ st.toks[Len(st.toks)].t = "UNDERSCORE")
MetaMode == st.meta <=> (LET i == LastOf(st.toks, {"LCBRA", "RCBRA"}) IN i > 0 /\ st.toks[i].t = "LCBRA")
\* token texts
TokenTexts == \A i \in 1..Len(st.toks) : LET t == st.toks[i] IN
                /\ t.v # <<>>
                /\ (t.t = "NUMBER" => \A j \in 1..Len(t.v) : IsDigitC(t.v[j]))
                /\ (t.t = "SYMBOL" => \A j \in 1..Len(t.v) : IsSymbolRune(t.v[j]))
                /\ (t.t = "METADATA" => (\A j \in 1..Len(t.v) : IsMetaRune(t.v[j])) /\ ~IsSpaceC(t.v[1]))
                /\ (t.t \notin {"NUMBER", "SYMBOL", "METADATA"} => Len(t.v) = 1)
=============================================================================
