----------------------------- MODULE LexerTrace -----------------------------
(***************************************************************************)
(* Trace validation of the real lexer against Lexer.tla, token by token.   *)
(* A record is one text pulled through the real ast.Lexer in-process       *)
(* (DoLex until it returns EOF); after every token the harness logged its  *)
(* type, text, source span and -- through the verif hooks -- the two mode  *)
(* flags.  The spec steps its own ScanStep; whenever the model emits a     *)
(* token the next logged token must be that token, with the same span and  *)
(* the same mode flags left behind; when the model ends, so must the log,  *)
(* with the same error status.                                              *)
(***************************************************************************)
EXTENDS Lexer, Json, TLC
Recs == ndJsonDeserialize("records.ndjson")
VARIABLES l, st, j, err
tvars == <<l, st, j, err>>
S == Recs[l].s
Log == Recs[l].toks
TInit == l \in 1..Len(Recs) /\ st = LexInit /\ j = 0 /\ err = ""
Matches(tok, st2, lg) ==
  /\ lg.t = tok.t /\ lg.v = tok.v
  /\ lg.start = PosAfter(S, tok.start) /\ lg.end = PosAfter(S, tok.end)
  /\ lg.sym = st2.sym /\ lg.meta = st2.meta
Step == /\ err = "" /\ ~st.done /\ Recs[l].kind = "lex"
        /\ LET st2 == ScanStep(S, st) IN
           /\ st' = st2
           /\ IF Len(st2.toks) > Len(st.toks)
              THEN IF j < Len(Log) /\ Matches(st2.toks[Len(st2.toks)], st2, Log[j + 1])
                   THEN j' = j + 1 /\ err' = ""
                   ELSE j' = j /\ err' = "the real lexer produced a different token (or mode) here"
              ELSE j' = j /\ err' = ""
        /\ l' = l
Done == (st.done \/ err # "" \/ Recs[l].kind # "lex") /\ UNCHANGED tvars
TSpec == TInit /\ [][Step \/ Done]_tvars
Conforms == err = ""
\* when the model's scan is over the log is over too, with the same verdict; and the real lexer terminated
Complete == (st.done /\ err = "" /\ Recs[l].kind = "lex") =>
               /\ Recs[l].terminated /\ j = Len(Log) /\ Recs[l].lexErr = st.err
\* the model's own invariants, on inputs the real lexer was given
NothingDropped == LET RECURSIVE SumLen(_)  SumLen(t) == IF t = <<>> THEN 0 ELSE Len(Head(t).v) + SumLen(Tail(t)) IN
                  st.pos = st.skipped + SumLen(st.toks)
=============================================================================
