------------------------------- MODULE Piece -------------------------------
(***************************************************************************)
(* The meaning of an instances document (the "what" layer of `crd write`,  *)
(* properties C01 C02 C05 C06 C07): a piece is a timeline.                 *)
(*                                                                          *)
(* A document is a sequence of instances                                    *)
(*   [rest, deg, base, sym, vals, bpm, meter, vel, key, txt, lic, mrk]      *)
(* (notations as code-point sequences, texts as UTF-8 byte sequences,       *)
(* 0 / <<>> / "" = absent) and the command-line overrides are               *)
(*   [bpm, meter, vel, key].                                                *)
(* Events are the tuples SMF.tla decodes:                                   *)
(*   <<trk, tick, delta, kind, ch, a, b, payload>>                          *)
(***************************************************************************)
EXTENDS Theory

\* ------------------------------------------------------------- settings
\* flags replace the first instance's settings only
Eff(doc, fl) ==
  [i \in 1..Len(doc) |->
     IF i # 1 THEN doc[i]
     ELSE [doc[1] EXCEPT !.bpm   = IF fl.bpm # 0 THEN fl.bpm ELSE @,
                         !.meter = IF fl.meter # <<>> THEN fl.meter ELSE @,
                         !.vel   = IF fl.vel # "" THEN fl.vel ELSE @,
                         !.key   = IF fl.key # <<>> THEN fl.key ELSE @]]
KeyC == <<67>>
\* most recent setting at or before instance i (d is the effective document)
LastWith(d, i, P(_)) == LET S == {j \in 1..i : P(d[j])} IN IF S = {} THEN 0 ELSE CHOOSE j \in S : \A m \in S : m <= j
HasKey(x) == x.key # <<>>
HasVel(x) == x.vel # ""
KeyInForce(d, i) == LET j == LastWith(d, i, HasKey) IN IF j = 0 THEN KeyC ELSE d[j].key
DynInForce(d, i) == LET j == LastWith(d, i, HasVel) IN IF j = 0 THEN "default" ELSE d[j].vel

\* ------------------------------------------------------------- pitches (C01)
LongName == [MajorTriad |-> "", MinorTriad |-> "m", DiminishedTriad |-> "dim", AugmentedTriad |-> "aug",
             DominantSeventh |-> "7", MajorSeventh |-> "M7", MajorSeventhAlias1 |-> "maj7", MinorSeventh |-> "m7",
             MinorMajorSeventh |-> "mM7", HalfDiminishedSeventh |-> "m7b5", DiminishedSeventh |-> "dim7",
             AugmentedMajorSeventh |-> "augM7", DominantNinth |-> "9", MinorMajorNinth |-> "mM9", MinorNinth |-> "m9",
             MajorNinth |-> "M9", MajorNinthAlias1 |-> "maj9", SuspendedFourth |-> "sus4", SeventhSuspendedFourth |-> "7sus4",
             Sixth |-> "6", MinorSixth |-> "m6", AddedNinth |-> "add9", SuspendSecond |-> "sus2"]
Display(sym) == IF sym \in DOMAIN LongName THEN LongName[sym] ELSE sym
KnownSymbol(sym) == Display(sym) \in ChordSymbols
RootPitch(x, keychars) == 60 + KeyOffset(ParseKey(keychars).k) + Size(ParseInterval(x.deg).iv)
BassPitch(x, keychars) == RootPitch(x, keychars) - 12 + (IF x.base = <<>> THEN 0 ELSE Size(ParseInterval(x.base).iv))
TonePitches(x, keychars) == {RootPitch(x, keychars) + t : t \in ChordTones(Display(x.sym))}
\* bag of keys that must sound: one per chord tone and one for the bass
BagAdd(b, x) == IF x \in DOMAIN b THEN [b EXCEPT ![x] = @ + 1] ELSE [y \in DOMAIN b \cup {x} |-> IF y = x THEN 1 ELSE b[y]]
ExpectedKeys(x, keychars) == BagAdd([p \in TonePitches(x, keychars) |-> 1], BassPitch(x, keychars))
InMidiRange(x, keychars) == \A p \in DOMAIN ExpectedKeys(x, keychars) : p >= 0 /\ p <= 127
BagOfSeq(s) == [x \in Range(s) |-> Cardinality({i \in 1..Len(s) : s[i] = x})]

\* ------------------------------------------------------------- time (C02)
Gcd(a, b) == LET RECURSIVE G(_, _)  G(x, y) == IF y = 0 THEN x ELSE G(y, x % y) IN G(a, b)
AddFrac(p, q) == LET g == Gcd(p[2], q[2])  d == (p[2] \div g) * q[2] IN <<p[1] * (d \div p[2]) + q[1] * (d \div q[2]), d>>
RECURSIVE ValSum(_)
ValSum(vals) == IF Len(vals) = 1 THEN vals[1] ELSE AddFrac(vals[1], ValSum(Tail(vals)))
\* round(T * v): either neighbour when exactly halfway
TickChoices(T, vals) ==
  LET s == ValSum(vals)
      g == Gcd(T, s[2])   t == T \div g   den == s[2] \div g       \* T * n / d = t * n / den, kept inside 32 bits:
      q == s[1] \div den   r0 == s[1] % den                      \* t * n = t * q * den + t * r0
      lo == t * q + (t * r0) \div den
      r == (t * r0) % den
  IN IF 2 * r < den THEN {lo} ELSE IF 2 * r > den THEN {lo + 1} ELSE {lo, lo + 1}
HalfSet(T, d) == {i \in 1..Len(d) : Cardinality(TickChoices(T, d[i].vals)) = 2}
Lo(T, x) == CHOOSE t \in TickChoices(T, x.vals) : \A u \in TickChoices(T, x.vals) : t <= u
\* ch : HalfSet -> {0, 1} picks the neighbour for the halfway instances
Dur(T, d, ch, i) == Lo(T, d[i]) + (IF i \in DOMAIN ch THEN ch[i] ELSE 0)
RECURSIVE StartOf(_, _, _, _)
StartOf(T, d, ch, i) == IF i = 1 THEN 0 ELSE StartOf(T, d, ch, i - 1) + Dur(T, d, ch, i - 1)
Total(T, d, ch) == StartOf(T, d, ch, Len(d) + 1)
Choices(T, d) == [HalfSet(T, d) -> {0, 1}]

\* ------------------------------------------------------------- control events (C07)
mTEXT == 1  mLYRIC == 5  mMARKER == 6  mTEMPO == 81  mMETER == 88  mKEYSIG == 89  mEOT == 47
ControlTypes == {mTEXT, mLYRIC, mMARKER, mTEMPO, mMETER, mKEYSIG}
\* what a tempo / meter / key-signature payload must say
TempoOk(pay, bpm) == /\ Len(pay) = 3
                     /\ LET us == pay[1] * 65536 + pay[2] * 256 + pay[3] IN
                        us \in {60000000 \div bpm, (60000000 + bpm - 1) \div bpm}
Pow2(n) == LET RECURSIVE P(_)  P(k) == IF k = 0 THEN 1 ELSE 2 * P(k - 1) IN P(n)
MeterOk(pay, m) == Len(pay) = 4 /\ pay[1] = m[1] /\ pay[2] <= 30 /\ Pow2(pay[2]) = m[2]
KeySigOk(pay, keychars) == LET k == ParseKey(keychars).k IN
                           Len(pay) = 2 /\ pay[1] = Signature(k) % 256 /\ pay[2] = (IF k.minor THEN 1 ELSE 0)
\* the control events the document demands: <<instance, type, value>>; type tempo/meter/key at instance 1 always
Demands(d) ==
  {<<1, mTEMPO, IF d[1].bpm # 0 THEN d[1].bpm ELSE 100>>,
   <<1, mMETER, IF d[1].meter # <<>> THEN d[1].meter ELSE <<4, 4>> >>,
   <<1, mKEYSIG, IF d[1].key # <<>> THEN d[1].key ELSE KeyC>>}
  \cup {<<i, mTEMPO, d[i].bpm>> : i \in {j \in 2..Len(d) : d[j].bpm # 0}}
  \cup {<<i, mMETER, d[i].meter>> : i \in {j \in 2..Len(d) : d[j].meter # <<>>}}
  \cup {<<i, mKEYSIG, d[i].key>> : i \in {j \in 2..Len(d) : d[j].key # <<>>}}
  \cup {<<i, mTEXT, d[i].txt>> : i \in {j \in 1..Len(d) : d[j].txt # <<>>}}
  \cup {<<i, mLYRIC, d[i].lic>> : i \in {j \in 1..Len(d) : d[j].lic # <<>>}}
  \cup {<<i, mMARKER, d[i].mrk>> : i \in {j \in 1..Len(d) : d[j].mrk # <<>>}}
Satisfies(e, dm) ==     \* event e (type e[6], payload e[8]) carries the demanded value
  /\ e[4] = 255 /\ e[6] = dm[2]
  /\ CASE dm[2] = mTEMPO  -> TempoOk(e[8], dm[3])
       [] dm[2] = mMETER  -> MeterOk(e[8], dm[3])
       [] dm[2] = mKEYSIG -> KeySigOk(e[8], dm[3])
       [] OTHER           -> e[8] = dm[3]

\* ------------------------------------------------------------- reading an event list
IsOn(e)  == e[4] = 9 /\ e[7] > 0
IsOff(e) == e[4] = 8 \/ (e[4] = 9 /\ e[7] = 0)
IsNote(e) == IsOn(e) \/ IsOff(e)
IsControl(e) == e[4] = 255 /\ e[6] \in ControlTypes
IsEOT(e) == e[4] = 255 /\ e[6] = mEOT
SelectSeq2(s, T(_)) == LET RECURSIVE F(_)  F(k) == IF k > Len(s) THEN <<>> ELSE (IF T(s[k]) THEN <<s[k]>> ELSE <<>>) \o F(k + 1) IN F(1)
\* maximal runs of note-ons / note-offs, in file order (single-track files: one on-run + one off-run per chord)
RunLen(s, from) == LET RECURSIVE R(_)  R(k) == IF k <= Len(s) /\ IsOn(s[k]) = IsOn(s[from]) THEN R(k + 1) ELSE k - from IN R(from)
Runs(s) == LET RECURSIVE F(_)  F(k) == IF k > Len(s) THEN <<>> ELSE LET n == RunLen(s, k) IN <<SubSeq(s, k, k + n - 1)>> \o F(k + n) IN F(1)
=============================================================================
