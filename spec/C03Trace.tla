------------------------------ MODULE C03Trace ------------------------------
(***************************************************************************)
(* C03 -- `text conv syllable`: note names map to the right interval in    *)
(* every key.  One state per single-chord run of the real binary.          *)
(***************************************************************************)
EXTENDS Theory, Json, TLC
Recs == ndJsonDeserialize("records.ndjson")
VARIABLE l
Init == l = 1
Next == l <= Len(Recs) /\ l' = l + 1
Spec == Init /\ [][Next]_l

InScale(k, n) == \E i \in 1..7 : ScaleNotes(k)[i] = n
\* the interval iv, read from x, names y:  right number (letters) and right size (pitch), i.e. x + iv = y
Names(iv, x, y) == /\ ValidInterval(iv)
                   /\ iv.n = IntervalNumber(x, y)
                   /\ (Size(iv) - (NotePitch(y) - NotePitch(x))) % 12 = 0

ChordOk(r) ==
  LET pk == ParseKey(r.key)  k == pk.k
      pr == ParseNote(r.root)   root == [l |-> pr.l, a |-> pr.a]
      hasBass == r.bass # <<>>
      pb == ParseNote(r.bass)   bass == [l |-> pb.l, a |-> pb.a]
      tonic == ScaleNotes(k)[1]
      \* (r.uni: the accidentals of the text were written with the Unicode signs; that those are accepted is C11's sentence,
      \* here only: if accepted, then read as that note)
      mustAccept == ~r.uni /\ InScale(k, root) /\ (hasBass => InScale(k, bass))
  IN
  /\ pk.ok /\ pr.ok /\ (hasBass => pb.ok) /\ Supported(k)      \* the driver generated what it claims
  /\ r.terminated
  /\ IF r.ok
     THEN LET d == ParseInterval(r.degree) IN
          /\ d.ok /\ Names(d.iv, tonic, root)
          /\ (InScale(k, root) => \E i \in 1..7 : ScaleNotes(k)[i] = root /\ d.iv.n = i)
          \* (a bass on the root itself may be printed as a unison or not at all)
          /\ (r.hasBase => LET b == ParseInterval(r.base) IN b.ok /\ Names(b.iv, root, IF hasBass THEN bass ELSE root))
          /\ (~r.hasBase => ~hasBass \/ bass = root)
     ELSE ~mustAccept                       \* scale notes are always accepted; anything else: an error (how it looks is
                                            \* C09's business), never a different degree

RecOk(r) == CASE r.kind = "skipped" -> TRUE [] r.kind = "chord" -> ChordOk(r) [] OTHER -> FALSE
Inv == l <= Len(Recs) => RecOk(Recs[l])
=============================================================================
