SPECIFICATION Spec
INVARIANT C01Inv
CHECK_DEADLOCK FALSE
