CONSTANTS N = 2
 L = 2
SPECIFICATION DevSharedSpec
INVARIANTS EOTInv
CHECK_DEADLOCK FALSE
