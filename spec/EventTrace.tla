----------------------------- MODULE EventTrace -----------------------------
(* Growth beyond the listed properties: `crd write event` prints one line per event of the file `crd write` produces,
   in file order -- "Track t  @tick(beat)  Message" -- with beat = tick div ticks-per-quarter; note lines carry the key
   and (note-on) the velocity.  A divergence is reported as a note in the evidence, never as a violation of a
   listed property. *)
EXTENDS Integers, Sequences, FiniteSets, Json, TLC
Recs == ndJsonDeserialize("records.ndjson")
VARIABLE l
Init == l \in 1..Len(Recs)
Next == UNCHANGED l
Spec == Init /\ [][Next]_l
R == Recs[l]
LineOk(ln, e) ==
  /\ ln[1] = e[1] /\ ln[2] = e[2] /\ ln[3] = e[2] \div 960   \* (crd prints tick div 960, the default resolution)
  /\ CASE e[4] = 9 /\ e[7] > 0 -> ln[4] = "NoteOn" /\ ln[5] = e[6] /\ ln[6] = e[7]
       [] e[4] = 8 \/ (e[4] = 9 /\ e[7] = 0) -> ln[4] = "NoteOff" /\ ln[5] = e[6]
       [] e[4] = 12 -> ln[4] = "ProgramChange"
       [] e[4] = 255 /\ e[6] = 81 -> ln[4] = "MetaTempo"
       [] e[4] = 255 /\ e[6] = 88 -> ln[4] = "MetaTimeSig"
       [] e[4] = 255 /\ e[6] = 89 -> ln[4] = "MetaKeySig"
       [] e[4] = 255 /\ e[6] = 47 -> ln[4] = "MetaEndOfTrack"
       [] e[4] = 255 /\ e[6] = 1 -> ln[4] = "MetaText"
       [] e[4] = 255 /\ e[6] = 5 -> ln[4] = "MetaLyric"
       [] e[4] = 255 /\ e[6] = 6 -> ln[4] = "MetaMarker"
       [] OTHER -> TRUE
Inv == R.kind = "listing" =>
         /\ R.ok /\ Len(R.lines) = Len(R.ev)
         /\ \A i \in 1..Len(R.ev) : LineOk(R.lines[i], R.ev[i])
=============================================================================
