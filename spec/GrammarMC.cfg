CONSTANT L = 9
SPECIFICATION Spec
INVARIANT Inv
POSTCONDITION WriteSentences
CHECK_DEADLOCK FALSE
