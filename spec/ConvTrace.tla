----------------------------- MODULE ConvTrace -----------------------------
(***************************************************************************)
(* Trace validation of `crd text conv` (properties C05 C10 C11).  One      *)
(* state per observation of the real binary; the oracle is the composition *)
(* Lexer.tla -> ChordLang.tla -> Conv.tla.                                  *)
(***************************************************************************)
EXTENDS Conv, Lexer, ChordLang, Json, TLC
Recs == ndJsonDeserialize("records.ndjson")
VARIABLE l
Init == l \in 1..Len(Recs)
Next == UNCHANGED l
Spec == Init /\ [][Next]_l
R == Recs[l]
KeyCmaj == [l |-> 0, a |-> 0, minor |-> FALSE]

Expected(s, mode, keyflag) ==
  LET lx == Lex(s) IN
  IF lx.err THEN [ok |-> FALSE, may |-> FALSE, out |-> <<>>]
  ELSE LET p == Parse(lx.toks) IN
       IF ~p.ok THEN [ok |-> FALSE, may |-> FALSE, out |-> <<>>]
       ELSE ConvertPiece(p.items, mode, IF keyflag = <<>> THEN KeyCmaj ELSE ParseKey(keyflag).k)

\* an instance as the YAML shows it vs the instance Conv.tla computes
\* (compared by meaning, not by spelling: which of two notations of one interval, which form of one fraction is printed is
\* not what "the same instances" is about; settings may or may not be repeated among the free metadata)
SameIvC(printed, iv) == LET q == ParseInterval(printed) IN q.ok /\ q.iv.n = iv.n /\ Size(q.iv) = Size(iv)
SameRat(printed, r) == LET q == ParseRat(printed) IN q.ok /\ q.r[2] > 0 /\ q.r[1] * r[2] = r[1] * q.r[2]
SettingNames == {kBPM, kVEL, kMTR, kKEY}
FreeMeta(S) == {x \in S : x[1] \notin SettingNames}
InstEq(o, e) ==
  /\ o.rest = e.rest
  /\ (~e.rest => /\ SameIvC(o.deg, e.deg) /\ o.name = e.sym
                 /\ (e.hasBase => (o.hasBase /\ SameIvC(o.base, e.base)) \/ (~o.hasBase /\ e.base.n = 1 /\ Size(e.base) = 0))   \* (a bass on the root itself may be left out)
                 /\ (o.hasBase /\ ~e.hasBase => SameIvC(o.base, P1)))          \* (no bass = the root itself)
  /\ Len(o.vals) = Len(e.vals) /\ \A i \in 1..Len(e.vals) : SameRat(o.vals[i], e.vals[i])
  /\ o.bpm = e.bpm
  /\ (IF e.meter = <<>> THEN o.meter = <<>> ELSE SameRat(o.meter, e.meter))
  /\ o.vel = e.vel
  /\ (IF e.hasKey THEN ParseKey(o.key).ok /\ ParseKey(o.key).k = e.key ELSE o.key = <<>>)
  /\ FreeMeta({<<Trim(o.meta[i][1]), Trim(o.meta[i][2])>> : i \in 1..Len(o.meta)}) = FreeMeta({<<Trim(x[1]), Trim(x[2])>> : x \in e.meta})
OutEq(out, exp) == Len(out) = Len(exp) /\ \A i \in 1..Len(exp) : InstEq(out[i], exp[i])

\* what one `text conv` run must do
Honoured(x) ==
  LET e == Expected(x.s, x.mode, x.keyflag) IN
  /\ x.terminated
  /\ (e.ok /\ ~e.may /\ ~Exotic(x.s) => x.ok)         \* what the notation expresses and the key contains converts
  /\ (~e.ok /\ ~Exotic(x.s) => ~x.ok)                  \* nonsense is refused
  /\ (x.ok /\ e.ok /\ ~Exotic(x.s) => OutEq(x.out, e.out))             \* never a different meaning
  /\ (~x.ok => x.exit # 0)                             \* a refusal is a failing run (its looks are C09's business)

\* ------------------------------------------------------------------ C11
\* abstract token sequence: NUMBER by value, SHARP/FLAT by kind, the optional `_` dropped
AbsToks(toks) == LET keep == SelectSeq(toks, LAMBDA t : t.t # "UNDERSCORE") IN
             [i \in 1..Len(keep) |->
                IF keep[i].t = "NUMBER" THEN <<"NUMBER", NatOfDigits(keep[i].v)>>
                ELSE IF keep[i].t \in {"SHARP", "FLAT"} THEN <<keep[i].t, 0>>
                ELSE <<keep[i].t, keep[i].v>>]
DriverClaimC11 == R.kind = "pair" =>
                    LET a == Lex(R.a.s)  b == Lex(R.b.s) IN ~a.err /\ ~b.err /\ AbsToks(a.toks) = AbsToks(b.toks)
C11Inv == R.kind = "pair" =>
            /\ (IF Exotic(R.a.s) \/ Exotic(R.b.s)
                THEN TRUE     \* (a blank the statement does not name may as well be a character of a symbol: nothing to demand)
                ELSE R.a.ok = R.b.ok /\ R.sameBytes)        \* spelling variants: byte-identical result
            /\ Honoured(R.a) /\ Honoured(R.b)            \* and an accepted accidental is honoured

\* stretched trivia: the driver ran the text with n units of trivia in one gap; the record carries the texts with one and
\* with two units.  Both lex to the tokens of the base text and a unit is made of blanks / comment characters only, so the
\* lexer is in the same mode after one unit as after two -- hence after n (LexerMC: trivia never changes the mode).
TriviaUnit(u) == \A i \in 1..Len(u) : u[i] \in {32, 9, 10, 120, 59}      \* blanks, line breaks, `;x` comment text
DriverClaimStretch == R.kind = "stretch" =>
                        LET a == Lex(R.a.s)  b == Lex(R.b1.s)  c == Lex(R.b2.s) IN
                        /\ ~a.err /\ ~b.err /\ ~c.err /\ AbsToks(a.toks) = AbsToks(b.toks) /\ AbsToks(a.toks) = AbsToks(c.toks)
                        /\ TriviaUnit(R.unit) /\ R.n >= 2
StretchInv == R.kind = "stretch" =>
                /\ R.bn.terminated /\ ~R.bn.panic
                /\ R.a.ok = R.bn.ok /\ R.a.ok = R.b1.ok /\ R.a.ok = R.b2.ok
                /\ R.sameBytes
                /\ Honoured(R.a) /\ Honoured(R.b1)

\* ------------------------------------------------------------------ C05
\* the texts of one progression: the degree text and one note-name text per key; the spec first re-derives that they
\* denote the same progression, then requires the real conversions to agree
DriverClaimC05 == R.kind = "prog" =>
                    LET d == Expected(R.deg.s, "degree", <<>>) IN
                    /\ d.ok
                    /\ \A i \in 1..Len(R.syl) : LET e == Expected(R.syl[i].s, "syllable", R.syl[i].keyflag) IN e.ok /\ e.out = d.out
C05Inv == R.kind = "prog" =>
            /\ Honoured(R.deg) /\ (R.deg.ok \/ Expected(R.deg.s, "degree", <<>>).may)
            /\ \A i \in 1..Len(R.syl) :
                 /\ Honoured(R.syl[i])
                 \* (the same instances, whichever way they were written: by meaning -- OutEq above --, not byte for byte)
\* a long piece = one section repeated: the section's conversion is judged by Conv.tla, the driver reports that the long
\* output is that block over and over (a projection: equality of decoded instances), the counts are checked here
SectionsInv == R.kind = "sections" =>
                 /\ Honoured(R.x) /\ R.x.ok
                 /\ R.terminated /\ R.wholeOk
                 /\ R.n = R.reps * Len(R.x.out)
                 /\ R.blocksEqual
\* a note-name text on its own: what the converter prints is what Conv.tla says it means (key changes, recurring spellings)
SylInv == R.kind = "syl" => Honoured(R.x)
=============================================================================
