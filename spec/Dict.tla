-------------------------------- MODULE Dict --------------------------------
(***************************************************************************)
(* The chord dictionary (property C16).                                     *)
(*                                                                          *)
(* what: a dictionary is the load-ordered sequence of definitions --        *)
(*   built-ins first, then the user's --attr / --chord files; a later      *)
(*   definition wins per name and per display symbol; a chord's notes are  *)
(*   its parent's notes (transitively, parent first) plus its own; a chord *)
(*   is addressed by name or by display symbol alike.  A dictionary is     *)
(*   accepted iff every entry is named, every attribute and every          *)
(*   `extends` reference resolves, and no chain of `extends` is cyclic.    *)
(*                                                                          *)
(* Names are code-point sequences.  A user chord is                         *)
(*   [name, display, attrs (sequence of attribute names), extends]          *)
(* and a user attribute [name, degree (interval notation)].                 *)
(* Built-in chords are taken flattened from the table of the property       *)
(* (Theory!ChordTones); built-in attributes are the English interval names. *)
(***************************************************************************)
EXTENDS Theory

\* ---- built-in attributes: "Major3", "Diminished5", ... for every valid interval below 20
WordMajor == <<77, 97, 106, 111, 114>>
WordMinor == <<77, 105, 110, 111, 114>>
WordPerfect == <<80, 101, 114, 102, 101, 99, 116>>
WordAugmented == <<65, 117, 103, 109, 101, 110, 116, 101, 100>>
WordDiminished == <<68, 105, 109, 105, 110, 105, 115, 104, 101, 100>>
WordDoubly == <<68, 111, 117, 98, 108, 121>>
QualityWords == <<[w |-> WordMajor, q |-> "M"], [w |-> WordMinor, q |-> "m"], [w |-> WordPerfect, q |-> "P"],
                  [w |-> WordAugmented, q |-> "A"], [w |-> WordDiminished, q |-> "d"],
                  [w |-> WordDoubly \o WordAugmented, q |-> "AA"], [w |-> WordDoubly \o WordDiminished, q |-> "dd"]>>
IsPrefixSeq(p, s) == Len(p) <= Len(s) /\ SubSeq(s, 1, Len(p)) = p
\* the interval an English attribute name says, [ok, iv]
EnglishInterval(name) ==
  LET hits == {j \in 1..Len(QualityWords) : IsPrefixSeq(QualityWords[j].w, name)} IN
  IF hits = {} THEN [ok |-> FALSE, iv |-> P1]
  ELSE LET j == CHOOSE x \in hits : TRUE
           digs == SubSeq(name, Len(QualityWords[j].w) + 1, Len(name)) IN
       IF AllDigits(digs) /\ digs[1] # 48 /\ Len(digs) <= 3
       THEN [ok |-> TRUE, iv |-> [n |-> NatOfDigits(digs), q |-> QualityWords[j].q]]
       ELSE [ok |-> FALSE, iv |-> P1]
BuiltinAttrMax == 19          \* `gen attr -d 20`
IsBuiltinAttr(name) == LET e == EnglishInterval(name) IN e.ok /\ ValidInterval(e.iv) /\ e.iv.n <= BuiltinAttrMax

\* ---- attributes of a dictionary (user list in load order, later wins)
LastIdx(seq, P(_)) == LET S == {i \in 1..Len(seq) : P(seq[i])} IN IF S = {} THEN 0 ELSE CHOOSE i \in S : \A j \in S : j <= i
AttrKnown(uattrs, name) == IsBuiltinAttr(name) \/ \E i \in 1..Len(uattrs) : uattrs[i].name = name
AttrSize(uattrs, name) == LET i == LastIdx(uattrs, LAMBDA a : a.name = name) IN
                          IF i > 0 THEN Size(ParseInterval(uattrs[i].degree).iv) ELSE Size(EnglishInterval(name).iv)

\* ---- chords: built-in table (flattened) then user entries
\* (SymChars: display symbols as code points -- in Theory.tla)
BuiltinDisplay(key) == {s \in ChordSymbols : SymChars[s] = key}
\* user entry addressed by key (name or display), the last one wins; 0 = none
UserIdx(uchords, key) == LastIdx(uchords, LAMBDA c : c.name = key \/ c.display = key)
\* `builtinNames` maps the long names of built-in chords (as listed by crd) to display strings; passed in by the caller
ChordKnown(uchords, bnames, key) == UserIdx(uchords, key) > 0 \/ BuiltinDisplay(key) # {} \/ key \in DOMAIN bnames

\* bag union
BagPlus(a, b) == [x \in DOMAIN a \cup DOMAIN b |-> (IF x \in DOMAIN a THEN a[x] ELSE 0) + (IF x \in DOMAIN b THEN b[x] ELSE 0)]
BagOfSet(S) == [x \in S |-> 1]
EmptyBag == [x \in {} |-> 0]
BagOfSeqD(s) == [x \in Range(s) |-> Cardinality({i \in 1..Len(s) : s[i] = x})]

\* follow `extends` from key at most `fuel` user entries deep; "cycle" when the fuel runs out
RECURSIVE Resolve(_, _, _, _, _)
Resolve(uattrs, uchords, bnames, key, fuel) ==
  LET i == UserIdx(uchords, key) IN
  IF i = 0
  THEN \* a built-in: the conventional tones of the property's table
       LET s == IF key \in DOMAIN bnames THEN bnames[key] ELSE CHOOSE x \in BuiltinDisplay(key) : TRUE
       IN [ok |-> TRUE, bag |-> BagOfSet(ChordTones(s))]
  ELSE IF fuel = 0 THEN [ok |-> FALSE, bag |-> EmptyBag]
  ELSE LET c == uchords[i]
           own == BagOfSeqD([j \in 1..Len(c.attrs) |-> AttrSize(uattrs, c.attrs[j])])
           par == IF c.extends = <<>> THEN [ok |-> TRUE, bag |-> EmptyBag]
                  ELSE Resolve(uattrs, uchords, bnames, c.extends, fuel - 1)
       IN [ok |-> par.ok, bag |-> BagPlus(par.bag, own)]

\* How `crd write` addresses a chord: the key (name or display symbol) finds an entry, and the notes are then looked up
\* under that entry's NAME -- so that a name and every display symbol that ever stood for it are interchangeable, also
\* after the name was defined again (parents named in `extends` are looked up directly).
TopKey(uchords, bnames, key) ==
  LET i == UserIdx(uchords, key) IN
  IF i > 0 THEN uchords[i].name
  ELSE IF key \in DOMAIN bnames THEN key
  ELSE LET S == {n \in DOMAIN bnames : bnames[n] \in ChordSymbols /\ SymChars[bnames[n]] = key} IN
       IF S = {} THEN key ELSE CHOOSE n \in S : TRUE
ResolveTop(uattrs, uchords, bnames, key, fuel) == Resolve(uattrs, uchords, bnames, TopKey(uchords, bnames, key), fuel)

Named(uattrs, uchords) == (\A i \in 1..Len(uattrs) : uattrs[i].name # <<>>) /\ (\A i \in 1..Len(uchords) : uchords[i].name # <<>>)
NoDanglingAttr(uattrs, uchords) == \A i \in 1..Len(uchords) : \A j \in 1..Len(uchords[i].attrs) : AttrKnown(uattrs, uchords[i].attrs[j])
NoDanglingExtends(uchords, bnames) == \A i \in 1..Len(uchords) : uchords[i].extends = <<>> \/ ChordKnown(uchords, bnames, uchords[i].extends)
Acyclic(uattrs, uchords, bnames) ==        \* from every key somebody can use: names and display symbols
  \A i \in 1..Len(uchords) : /\ Resolve(uattrs, uchords, bnames, uchords[i].name, Len(uchords) + 1).ok
                              /\ Resolve(uattrs, uchords, bnames, uchords[i].display, Len(uchords) + 1).ok
Accept(uattrs, uchords, bnames) ==
  /\ Named(uattrs, uchords) /\ NoDanglingAttr(uattrs, uchords) /\ NoDanglingExtends(uchords, bnames)
  /\ Acyclic(uattrs, uchords, bnames)
=============================================================================
