-------------------------------- MODULE Runs --------------------------------
(***************************************************************************)
(* One CLI run = request -> outcome (properties C09, C12).                 *)
(*                                                                          *)
(* A run record: [cmd (stage name), nonsense, channel, terminated, panic,  *)
(* signal, exit, stdoutLen, stderrLen, ofileLen, ...].                      *)
(*                                                                          *)
(* Protocol: every run terminates without panic / fatal error / signal and *)
(* either succeeds or fails with a non-zero status, a diagnostic on stderr *)
(* and no result on stdout (nor in the -o file).                            *)
(*                                                                          *)
(* Pipeline: for each kind of musically meaningless input and each channel *)
(* it can arrive on, the stages that have to interpret it -- it must fail  *)
(* there.  A flag left at or set to its empty / zero default is "no        *)
(* override" (the property's quantifier says so) and is not nonsense.       *)
(***************************************************************************)
EXTENDS Integers, Sequences, FiniteSets

Protocol(r) == /\ r.terminated /\ ~r.panic /\ r.signal = ""
               /\ \/ r.exit = 0
                  \/ (r.exit > 0 /\ r.stderrLen > 0 /\ r.stdoutLen = 0 /\ r.ofileLen = 0)

TCD == "text conv degree"  TCS == "text conv syllable"  TP == "text parse"
W == "write"  WE == "write event"  WP == "write parse"  WC == "write conv"
IKD == "info key describe"  IKC == "info key conv"
TextConv == {TCD, TCS}
WriteAll == {W, WE, WP, WC}
Nonsense == {"zero duration", "zero denominator", "no durations", "tempo 0", "unknown dynamic", "unknown chord symbol",
             "unknown modifier", "key without scale", "malformed key", "mixed notation", "empty piece"}
Channels == {"text", "piped", "yaml", "flag"}
\* the stages at which nonsense n arriving on channel ch has to be interpreted (and therefore refused)
MustFailAt(n, ch) ==
  CASE ch = "text" ->
         (CASE n \in {"zero duration", "zero denominator", "tempo 0", "unknown dynamic", "mixed notation", "malformed key"} -> TextConv
            [] n = "empty piece" -> {TP} \cup TextConv
            [] n = "key without scale" -> {TCS}            \* the degree converter passes the key on unread
            [] OTHER -> {})                                \* an unknown chord symbol passes text conv: no dictionary there
    [] ch = "piped" ->                                     \* what text conv let through reaches write
         (CASE n \in {"unknown chord symbol", "key without scale"} -> WriteAll [] OTHER -> {})
    [] ch = "yaml" ->
         (CASE n \in {"zero duration", "zero denominator", "no durations", "tempo 0", "unknown dynamic", "unknown chord symbol",
                      "key without scale", "malformed key"} -> WriteAll
            [] n = "empty piece" -> {W, WE}
            [] OTHER -> {})
    [] ch = "flag" ->
         (CASE n \in {"unknown dynamic", "zero denominator"} -> WriteAll      \* (--meter 4/0: a meter is a fraction too; --bpm 0 is the flag's default: no override)       \* (--bpm 0 is tempo 0 as a flag value, not "no flag")
            [] n \in {"key without scale", "malformed key"} -> WriteAll \cup {TCS, IKD, IKC}
            [] n = "unknown modifier" -> {WC}
            [] OTHER -> {})
    [] OTHER -> {}
\* the cells of the matrix that exist at all
Cells == {<<n, ch, st>> : n \in Nonsense, ch \in Channels, st \in {TP, TCD, TCS, W, WE, WP, WC, IKD, IKC}}
LiveCells == {c \in Cells : c[3] \in MustFailAt(c[1], c[2])}
Refused(r) == (r.nonsense # "" /\ r.cmd \in MustFailAt(r.nonsense, r.channel)) => r.exit > 0
NoOverride(r) == r.nonsense = "no override" => r.exit = 0      \* a flag at its zero / empty default is not nonsense: the run is the run without it
=============================================================================
