------------------------------ MODULE Grammar ------------------------------
(***************************************************************************)
(* The chord language as its grammar file defines it (property C04).       *)
(* The productions are NOT written here: they are loaded from              *)
(* "productions.json", which ./check extracts from the working tree's      *)
(* input/ast/chords.y (rules section, actions dropped), so this oracle     *)
(* follows the grammar file.                                                *)
(*                                                                          *)
(* One action = expand the leftmost nonterminal of a sentential form by    *)
(* one production.  TLC enumerates every sentence of at most L tokens      *)
(* together with its leftmost derivation, checks that no sentence has two  *)
(* derivations (unambiguity), and writes the sentences to                   *)
(* "sentences.ndjson" for the binding drivers.                              *)
(***************************************************************************)
EXTENDS Integers, Sequences, SequencesExt, FiniteSets, Json, TLC
CONSTANT L
G == JsonDeserialize("productions.json")
Prods == G.productions
Terminals == {G.tokens[i] : i \in 1..Len(G.tokens)}
NonTerminals == {Prods[i].lhs : i \in 1..Len(Prods)}
ASSUME G.start \in NonTerminals
ASSUME \A i \in 1..Len(Prods) : \A j \in 1..Len(Prods[i].rhs) : Prods[i].rhs[j] \in Terminals \cup NonTerminals

\* minimal number of tokens a symbol can derive (fixpoint, |NonTerminals| rounds suffice)
Big == 1000
RECURSIVE MinLenIter(_, _)
MinLenIter(m, k) ==
  IF k = 0 THEN m
  ELSE MinLenIter([A \in NonTerminals |->
          LET cands == {LET r == Prods[i].rhs IN
                          IF r = <<>> THEN 0
                          ELSE LET RECURSIVE S(_)
                                   S(j) == IF j > Len(r) THEN 0
                                           ELSE (IF r[j] \in Terminals THEN 1 ELSE m[r[j]]) + S(j + 1)
                               IN S(1)
                        : i \in {x \in 1..Len(Prods) : Prods[x].lhs = A}}
          IN CHOOSE c \in cands : \A d \in cands : c <= d], k - 1)
MinLen == MinLenIter([A \in NonTerminals |-> Big], Cardinality(NonTerminals) + 1)
MinYield(form) == LET RECURSIVE S(_)
                      S(j) == IF j > Len(form) THEN 0
                              ELSE (IF form[j] \in Terminals THEN 1 ELSE MinLen[form[j]]) + S(j + 1)
                  IN S(1)

VARIABLES form, deriv
vars == <<form, deriv>>
IsSentence(f) == \A i \in 1..Len(f) : f[i] \in Terminals
LeftmostNT(f) == CHOOSE i \in 1..Len(f) : f[i] \in NonTerminals /\ \A j \in 1..(i - 1) : f[j] \in Terminals
Init == form = <<G.start>> /\ deriv = <<>> /\ TLCSet(1, {}) /\ TLCSet(2, {})
Expand == /\ ~IsSentence(form)
          /\ LET i == LeftmostNT(form) IN
             \E p \in 1..Len(Prods) :
                /\ Prods[p].lhs = form[i]
                /\ LET f2 == SubSeq(form, 1, i - 1) \o Prods[p].rhs \o SubSeq(form, i + 1, Len(form)) IN
                   /\ MinYield(f2) <= L
                   /\ form' = f2
                   /\ deriv' = Append(deriv, Prods[p].id)
Next == Expand
Spec == Init /\ [][Next]_vars

\* register 1: sentences seen; register 2: (sentence, derivation) pairs -- needs -workers 1
Collect == IsSentence(form) =>
             /\ TLCSet(2, TLCGet(2) \cup {<<form, deriv>>})
             /\ TLCSet(1, TLCGet(1) \cup {form})
\* unambiguous: a sentence is reached by exactly one leftmost derivation
Unambiguous == IsSentence(form) => \A sd \in TLCGet(2) : sd[1] = form => sd[2] = deriv
Inv == Unambiguous /\ Collect
WriteSentences == ndJsonSerialize("sentences.ndjson", SetToSeq({[toks |-> sd[1], deriv |-> sd[2]] : sd \in TLCGet(2)}))
=============================================================================
