--------------------------- MODULE TransposeTrace ---------------------------
(* C05, second half: the same instances played with --key K1 and --key K2 give the same events, every pitch
   shifted by the distance between the tonics and nothing else changed (the key-signature event names the key). *)
EXTENDS Piece, Json, TLC
Recs == ndJsonDeserialize("records.ndjson")
VARIABLE l
Init == l \in 1..Len(Recs)
Next == UNCHANGED l
Spec == Init /\ [][Next]_l
R == Recs[l]
Shift == KeyOffset(ParseKey(R.k2).k) - KeyOffset(ParseKey(R.k1).k)
IsKeySig(e) == e[4] = 255 /\ e[6] = mKEYSIG
Inv == R.kind = "transpose" =>
         /\ R.ok1 = R.ok2
         /\ (R.ok1 =>
              /\ Len(R.ev1) = Len(R.ev2)
              /\ \A i \in 1..Len(R.ev1) : LET a == R.ev1[i]  b == R.ev2[i] IN
                    IF IsNote(a) THEN b = [a EXCEPT ![6] = @ + Shift]                 \* every pitch shifted by the tonic distance
                    ELSE IF IsKeySig(a) THEN /\ IsKeySig(b) /\ a[2] = b[2] /\ KeySigOk(a[8], R.k1) /\ KeySigOk(b[8], R.k2)
                    ELSE a = b)                                                      \* and nothing else changed
=============================================================================
