------------------------------ MODULE C12Trace ------------------------------
(* C12 -- same command, same input, same bytes. A record is the history of runs of one request class
   (same arguments and input, modulo GOMAXPROCS, --debug, and the I/O path); every run of the history must
   have the same success and the same output bytes (sha-256). *)
EXTENDS Integers, Sequences, FiniteSets, Json, TLC
Recs == ndJsonDeserialize("records.ndjson")
VARIABLE l
Init == l \in 1..Len(Recs)
Next == UNCHANGED l
Spec == Init /\ [][Next]_l
R == Recs[l]
\* outs[i] = <<succeeded, sha of the output bytes, length, variant label, terminated>>
Same(outs) == Cardinality({<<outs[i][1], outs[i][2]>> : i \in 1..Len(outs)}) <= 1
Inv == /\ (R.kind \in {"group", "debug"} => \A i \in 1..Len(R.outs) : R.outs[i][5])
       /\ (R.kind = "group" => Same(R.outs))                                  \* every run, every CPU count, every I/O path
       /\ (R.kind = "debug" => /\ Same(<<R.plain>> \o R.outs)                \* --debug changes nothing on stdout
                                /\ \A i \in 1..Len(R.sinks) : R.sinks[i][4] /\ R.sinks[i][2] = 0 /\ R.sinks[i][1] = R.plain[1])
       \* output sent where it cannot be read back (-o /dev/null): the same success, nothing on stdout
       /\ (R.kind = "group" => \A i \in 1..Len(R.sinks) : /\ R.sinks[i][4] /\ R.sinks[i][2] = 0
                                                            /\ (R.outs # <<>> => R.sinks[i][1] = R.outs[1][1]))
\* ... and where the output device refuses every write (/dev/full), -o and standard output have the same outcome
\* (that equality was demanded for a while; a device is not "the -o file" of the statement, and a crd that writes a
\* temporary file and renames it fails differently there.  What stays: neither run hangs or crashes)
FullInv == R.kind = "group" => /\ R.full[3] /\ R.full[4]
=============================================================================
