---------------------------- MODULE WriterTrace ----------------------------
(***************************************************************************)
(* Trace validation of the real midix writer against Writer.tla.  A record *)
(* is one sequence of MIDIWriter calls made in-process on the real code,   *)
(* with the state read through the verif hooks after every call:           *)
(*   events[j] = [op, args..., wpend, tpend, deltas]                        *)
(* Each step applies the model action named by the event with the logged   *)
(* arguments and requires the model's next state to project onto the       *)
(* logged state; the model invariants (ClockInv, EOTInv, Refines) are then *)
(* evaluated on states the real code actually went through.  At the end    *)
(* the model's ops must be exactly the events decoded from the bytes the   *)
(* real writer serialised.                                                  *)
(***************************************************************************)
EXTENDS Writer, Json, TLC
Recs == ndJsonDeserialize("records.ndjson")
VARIABLES l, j, err
tvars == <<wpend, tpend, ops, closed, now, tl, l, j, err>>
Evs == Recs[l].events
TInit == Init /\ l \in 1..Len(Recs) /\ j = 0 /\ err = ""
Deltas(o) == [t \in 1..N |-> [i \in 1..Len(o[t - 1]) |-> o[t - 1][i].d]]
Logged(e) == /\ wpend' = e.wpend
             /\ tpend' = [t \in Tracks |-> e.tpend[t + 1]]
             /\ Deltas(ops') = e.deltas
Step == /\ Recs[l].kind = "wtrace" /\ Recs[l].n = N /\ j < Len(Evs)
        /\ LET e == Evs[j + 1] IN
           /\ CASE e.op = "meta"  -> Meta(e.name)
                [] e.op = "rest"  -> Rest(e.k)
                [] e.op = "note"  -> Note(e.k, e.keys)
                [] e.op = "close" -> Close
           /\ err' = IF err # "" THEN err       \* (the first divergence is kept; the ghost timeline keeps following the calls)
                      ELSE IF Logged(e) THEN "" ELSE "the real writer's state differs from the model's after this call"
        /\ j' = j + 1 /\ l' = l
\* the bytes written are the model's ops
FinalOf(t) == LET a == AbsOf(ops[t]) IN
              [i \in 1..Len(a) |-> <<a[i][1], a[i][2][1], IF a[i][2][1] \in {"on", "off"} THEN a[i][2][2] ELSE 0>>]
FinalOk == (j = Len(Evs) /\ err = "" /\ Recs[l].kind = "wtrace") =>
             /\ closed /\ Recs[l].written
             /\ \A t \in Tracks : FinalOf(t) = Recs[l].final[t + 1]
Done == (j = Len(Evs) \/ Recs[l].kind # "wtrace") /\ UNCHANGED tvars
\* WHAT-level, independent of the mechanism model: the bytes the real writer serialised, merged over the tracks, are the
\* timeline the calls denote (tl and now are computed from the call arguments only), and every track ends at the end
ObsBag(t) == LET f == Recs[l].final[t + 1]
                 g == SelectSeq(f, LAMBDA x : x[2] # "eot")
             IN [i \in 1..Len(g) |-> <<g[i][1], IF g[i][2] = "meta" THEN <<"meta">> ELSE <<g[i][2], g[i][3]>> >>]
RECURSIVE ObsMerge(_, _)
ObsMerge(t, b) == IF t > N - 1 THEN b ELSE ObsMerge(t + 1, BagAddAll(b, ObsBag(t)))
TlKinds == LET S == DOMAIN tl IN [x \in {<<y[1], IF y[2][1] = "meta" THEN <<"meta">> ELSE y[2]>> : y \in S} |->
              LET M == {y \in S : <<y[1], IF y[2][1] = "meta" THEN <<"meta">> ELSE y[2]>> = x}
                  RECURSIVE Sum(_)  Sum(Q) == IF Q = {} THEN 0 ELSE LET q == CHOOSE z \in Q : TRUE IN tl[q] + Sum(Q \ {q})
              IN Sum(M)]
ObservedTimeline == (j = Len(Evs) /\ Recs[l].kind = "wtrace") =>
   /\ Recs[l].written
   \* notes exactly; meta events: those the calls denote, plus whatever else the writer puts at tick 0 on its own account
   \* (track name, instrument, program ... -- no property counts those)
   /\ LET obs == ObsMerge(0, [x \in {} |-> 0])  want == TlKinds
          cnt(b, x) == IF x \in DOMAIN b THEN b[x] ELSE 0 IN
      /\ \A x \in DOMAIN want \cup DOMAIN obs :
            IF x[2] = <<"meta">> /\ x[1] = 0 THEN cnt(obs, x) >= cnt(want, x) ELSE cnt(obs, x) = cnt(want, x)
   /\ \A t \in Tracks : LET f == Recs[l].final[t + 1] IN f # <<>> /\ f[Len(f)][2] = "eot" /\ f[Len(f)][1] = now
TNext == Step \/ Done
TSpec == TInit /\ [][TNext]_tvars
Conforms == err = ""
=============================================================================
