------------------------------ MODULE WriterMC ------------------------------
(* Exhaustive exploration of the writer mechanism: every sequence of at most L writer calls (metas, rests and
   notes of 1..3 keys with lengths 1..2), then Close, on N tracks. *)
EXTENDS Writer, TLC
CONSTANT L
VARIABLE calls
mcvars == <<wpend, tpend, ops, closed, now, tl, calls>>
KeySets == {<<60>>, <<60, 64>>, <<60, 64, 67>>}
MCInit == Init /\ calls = 0
MCNext == \/ /\ calls < L /\ calls' = calls + 1
             /\ \/ \E e \in {"tempo", "text"} : Meta(e)
                \/ \E k \in 1..2 : Rest(k)
                \/ \E k \in 1..2 : \E ks \in KeySets : Note(k, ks)
          \/ Close /\ calls' = calls
MCSpec == MCInit /\ [][MCNext]_mcvars
\* the deviations, for the configs that must produce the design-level counterexamples
DevSharedNext == \/ /\ calls < L /\ calls' = calls + 1 /\ (\E k \in 1..2 : Rest(k) \/ \E ks \in KeySets : Note(k, ks))
                 \/ CloseSharedOp /\ calls' = calls
DevSharedSpec == MCInit /\ [][DevSharedNext]_mcvars
DevDropNext == \/ /\ calls < L /\ calls' = calls + 1 /\ (\E k \in 1..2 : Rest(k) \/ \E ks \in KeySets : Note(k, ks))
               \/ CloseDropsRest /\ calls' = calls
DevDropSpec == MCInit /\ [][DevDropNext]_mcvars
=============================================================================
