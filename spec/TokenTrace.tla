----------------------------- MODULE TokenTrace -----------------------------
(* C04, parser side: token strings injected straight into the shipped LALR tables (no lexer). The generated
   parser must accept exactly the strings of the language (ChordLang.tla, model-checked equal to the productions
   of chords.y by ChordLangMC), and build one list item per chord or rest. *)
EXTENDS ChordLang, Json, TLC
Recs == ndJsonDeserialize("records.ndjson")
VARIABLE l
Init == l \in 1..Len(Recs)
Next == UNCHANGED l
Spec == Init /\ [][Next]_l
R == Recs[l]
Name == <<"SYLLABLE", "SLASH", "LBRA", "RBRA", "COMMA", "SHARP", "FLAT", "NUMBER", "SYMBOL", "REST", "UNDERSCORE",
          "LCBRA", "RCBRA", "EQUAL", "METADATA">>
Inv == R.kind = "toks" =>
         LET p == Parse([i \in 1..Len(R.t) |-> [t |-> Name[R.t[i] + 1], v |-> <<i>>]]) IN
         /\ R.ok = p.ok
         /\ (p.ok => R.n = Len(p.items))
=============================================================================
