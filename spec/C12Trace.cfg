SPECIFICATION Spec
INVARIANTS Inv FullInv
CHECK_DEADLOCK FALSE
