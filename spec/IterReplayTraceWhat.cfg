SPECIFICATION Spec
INVARIANTS Outcome
CHECK_DEADLOCK FALSE
