-------------------------------- MODULE Conv --------------------------------
(***************************************************************************)
(* What `crd text conv degree|syllable` means (properties C05 C10 C11):    *)
(* the instances a chord text denotes.                                      *)
(*                                                                          *)
(* Carried state (how): the converter walks the chords and rests in order  *)
(* carrying the *current key*; a {key=K} on a chord or rest switches the    *)
(* key BEFORE the carrying chord is read (so the change applies from that  *)
(* chord on).  ConvStep is that transition; ConvertPiece folds it.          *)
(*                                                                          *)
(* Input: tree items as built by ChordLang!Parse.  Output instances:        *)
(*   [rest, deg, hasBase, base, sym, vals, bpm, meter, vel, key, meta]      *)
(* with deg/base intervals [n, q], vals/meter as <<n, d>>, key as a key     *)
(* record, meta the set of <<key text, value text>> pairs.                  *)
(***************************************************************************)
EXTENDS Theory

Dynamics == {<<112, 112>>, <<112>>, <<109, 112>>, <<109, 102>>, <<102>>, <<102, 102>>}     \* pp p mp mf f ff
kTXT == <<116, 120, 116>>  kLIC == <<108, 105, 99>>  kMRK == <<109, 114, 107>>
kBPM == <<98, 112, 109>>   kVEL == <<118, 101, 108>> kMTR == <<109, 116, 114>>  kKEY == <<107, 101, 121>>

\* unsigned decimal that fits the implementation's integers comfortably (longer digit strings are not generated)
RECURSIVE StripZeros(_)
StripZeros(s) == IF Len(s) > 1 /\ s[1] = 48 THEN StripZeros(Tail(s)) ELSE s
IsUint(s) == AllDigits(s) /\ Len(StripZeros(s)) <= 9          \* leading zeros do not count
\* "n" or "n/d"
SplitAt(s, c) == LET S == {i \in 1..Len(s) : s[i] = c} IN IF S = {} THEN 0 ELSE CHOOSE i \in S : \A j \in S : i <= j
ParseRat(s) == LET k == SplitAt(s, 47) IN
               IF k = 0 THEN (IF IsUint(s) THEN [ok |-> TRUE, r |-> <<NatOfDigits(s), 1>>] ELSE [ok |-> FALSE, r |-> <<0, 1>>])
               ELSE LET a == SubSeq(s, 1, k - 1)  b == SubSeq(s, k + 1, Len(s)) IN
                    IF IsUint(a) /\ IsUint(b) THEN [ok |-> TRUE, r |-> <<NatOfDigits(a), NatOfDigits(b)>>] ELSE [ok |-> FALSE, r |-> <<0, 1>>]
PrintRat(r) == IF r[2] = 1 THEN DigitsOf(r[1]) ELSE DigitsOf(r[1]) \o <<47>> \o DigitsOf(r[2])

\* the last value given for a metadata key ("" = <<>> when absent); later pairs win
MetaGet(meta, key) == LET S == {i \in 1..Len(meta) : meta[i][1] = key} IN
                      IF S = {} THEN <<>> ELSE meta[CHOOSE i \in S : \A j \in S : j <= i][2]
MetaSet(meta) == {<<meta[i][1], MetaGet(meta, meta[i][1])>> : i \in 1..Len(meta)}

\* the accidental token: ASCII or the Unicode sign, both mean the same
AccOf(a) == IF a = <<>> THEN 0 ELSE IF a[1] \in {chSharp, chUSharp} THEN 1 ELSE IF a[1] \in {chFlat, chUFlat} THEN -1 ELSE 99

IsNoteName(root) == Len(root) = 1 /\ IsLetterChar(root[1])
IsNumber(root) == AllDigits(root)
\* notation of a piece: "syllable", "degree", or "mixed"/"none"
Heads(items) == {items[i].root : i \in {j \in 1..Len(items) : ~items[j].rest}}
                  \cup {items[i].broot : i \in {j \in 1..Len(items) : ~items[j].rest /\ items[j].hasBase}}
Notation(items) == IF Heads(items) = {} THEN "none"
                   ELSE IF \A h \in Heads(items) : IsNoteName(h) THEN "syllable"
                   ELSE IF \A h \in Heads(items) : IsNumber(h) THEN "degree"
                   ELSE "mixed"

\* degree notation: number + at most one mark; "3b" is the minor third, "5b" the diminished fifth
DegreeInterval(root, acc) ==
  LET n == NatOfDigits(root)  a == AccOf(acc) IN
  IF ~IsUint(root) \/ n < 1 THEN [ok |-> FALSE, may |-> FALSE, iv |-> P1]
  \* (whether a diminished unison exists is a don't-care, as in C15: `1b` may be refused)
  ELSE [ok |-> TRUE, may |-> (n = 1 /\ a = -1),
        iv |-> [n |-> n, q |-> IF a = 1 THEN "A" ELSE IF a = -1 THEN (IF PerfectClass(n) THEN "d" ELSE "m")
                               ELSE (IF PerfectClass(n) THEN "P" ELSE "M")]]
\* syllable notation: the interval from x up to the written note; `may` = crd may refuse it (C03: only scale notes must be accepted)
NoteInterval(x, root, acc, mustAccept) ==
  LET y == [l |-> LetterOfChar(root[1]), a |-> AccOf(acc)]
      n == IntervalNumber(x, y)
      q == QualityFor(n, CHOOSE s \in (-2)..13 : (s - (NotePitch(y) - NotePitch(x))) % 12 = 0
                                                /\ \E qq \in Qualities : ValidInterval([n |-> n, q |-> qq]) /\ Size([n |-> n, q |-> qq]) = s)
  IN [ok |-> TRUE, may |-> ~mustAccept, iv |-> [n |-> n, q |-> q], note |-> y]

InScaleNote(k, y) == \E i \in 1..7 : ScaleNotes(k)[i] = y

\* one conversion step: state [key (record), out (instances), err, may]; item; mode
ConvStep(st, it, mode) ==
  LET m == it.meta
      bpmS == MetaGet(m, kBPM)  velS == MetaGet(m, kVEL)  mtrS == MetaGet(m, kMTR)  keyS == MetaGet(m, kKEY)
      mtr == ParseRat(mtrS)
      pk == ParseKey(keyS)
      settingsOk == /\ (bpmS # <<>> => IsUint(bpmS) /\ NatOfDigits(bpmS) >= 1)
                    /\ (velS # <<>> => velS \in Dynamics)
                    /\ (mtrS # <<>> => mtr.ok /\ mtr.r[1] >= 1 /\ mtr.r[2] >= 1)
                    /\ (keyS # <<>> => pk.ok /\ (mode = "syllable" => Supported(pk.k)))
      \* settings an event cannot carry (a tempo outside 4..60,000,000, a meter beyond one byte or with a denominator that is no
      \* power of two) may be refused here already; so may a chord symbol that is not a built-in one (text conv has no
      \* dictionary, but a stricter one would be no worse) and a setting name nobody knows
      extraMay == \/ (bpmS # <<>> /\ IsUint(bpmS) /\ (NatOfDigits(bpmS) < 4 \/ NatOfDigits(bpmS) > 60000000))
                  \/ (mtrS # <<>> /\ mtr.ok /\ (mtr.r[1] > 255 \/ mtr.r[2] \notin {1, 2, 4, 8, 16, 32, 64, 128}))
                  \/ (~it.rest /\ it.sym \notin {SymChars[s] : s \in ChordSymbols})
                  \/ (\E i \in 1..Len(m) : m[i][1] \notin {kBPM, kVEL, kMTR, kKEY, kTXT, kLIC, kMRK})
      key2 == IF keyS # <<>> /\ pk.ok THEN pk.k ELSE st.key          \* the change applies from this chord / rest on
      vals == [i \in 1..Len(it.vals) |->
                 <<IF IsUint(it.vals[i][1]) THEN NatOfDigits(it.vals[i][1]) ELSE 0,
                   IF it.vals[i][2] = <<>> THEN 1 ELSE IF IsUint(it.vals[i][2]) THEN NatOfDigits(it.vals[i][2]) ELSE 0>>]
      valsOk == \A i \in 1..Len(vals) : vals[i][1] >= 1 /\ vals[i][2] >= 1
      tonic == ScaleNotes(key2)[1]
      d == IF it.rest THEN [ok |-> TRUE, may |-> FALSE, iv |-> P1]
           ELSE IF mode = "degree" THEN DegreeInterval(it.root, it.acc)
           ELSE NoteInterval(tonic, it.root, it.acc,
                             InScaleNote(key2, [l |-> LetterOfChar(it.root[1]), a |-> AccOf(it.acc)]))
      b == IF it.rest \/ ~it.hasBase THEN [ok |-> TRUE, may |-> FALSE, iv |-> P1]
           ELSE IF mode = "degree" THEN DegreeInterval(it.broot, it.bacc)
           ELSE NoteInterval([l |-> LetterOfChar(it.root[1]), a |-> AccOf(it.acc)], it.broot, it.bacc,
                             /\ InScaleNote(key2, [l |-> LetterOfChar(it.root[1]), a |-> AccOf(it.acc)])
                             /\ InScaleNote(key2, [l |-> LetterOfChar(it.broot[1]), a |-> AccOf(it.bacc)]))
      accsOk == it.rest \/ (AccOf(it.acc) # 99 /\ (it.hasBase => AccOf(it.bacc) # 99))
      inst == [rest |-> it.rest, deg |-> d.iv, hasBase |-> ~it.rest /\ it.hasBase, base |-> b.iv,
               sym |-> IF it.rest THEN <<>> ELSE it.sym, vals |-> vals,
               bpm |-> IF bpmS = <<>> THEN 0 ELSE NatOfDigits(bpmS),
               meter |-> IF mtrS = <<>> THEN <<>> ELSE mtr.r,
               vel |-> velS,
               hasKey |-> keyS # <<>>, key |-> IF keyS # <<>> THEN key2 ELSE [l |-> 0, a |-> 0, minor |-> FALSE],
               meta |-> MetaSet(m)]
  IN IF st.err THEN st
     ELSE IF ~(settingsOk /\ valsOk /\ accsOk /\ d.ok /\ b.ok) THEN [st EXCEPT !.err = TRUE]
     ELSE [st EXCEPT !.key = key2, !.out = Append(@, inst), !.may = @ \/ d.may \/ b.may \/ extraMay]

RECURSIVE ConvFold(_, _, _, _)
ConvFold(st, items, i, mode) == IF i > Len(items) THEN st ELSE ConvFold(ConvStep(st, items[i], mode), items, i + 1, mode)
\* mode is the subcommand; key0 the --key flag (C when absent); result [ok (must succeed), may (may be refused), out]
ConvertPiece(items, mode, key0) ==
  IF Notation(items) # mode THEN [ok |-> FALSE, may |-> FALSE, out |-> <<>>]       \* mixed notation, no chords, or the wrong subcommand
  ELSE LET st == ConvFold([key |-> key0, out |-> <<>>, err |-> FALSE, may |-> FALSE], items, 1, mode) IN
       [ok |-> ~st.err, may |-> st.may, out |-> st.out]
=============================================================================
