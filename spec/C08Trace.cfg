SPECIFICATION Spec
INVARIANTS Inv HugeInv
CHECK_DEADLOCK TRUE
