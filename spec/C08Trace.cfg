SPECIFICATION Spec
INVARIANT Inv
CHECK_DEADLOCK TRUE
