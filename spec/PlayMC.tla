------------------------------- MODULE PlayMC -------------------------------
(* Every document of at most MaxLen instances over a small vocabulary (chord or rest; bpm, key, dynamic, text,
   lyric each present or absent) x every flag subset: the Opt-cell mechanism of Play.tla makes exactly the calls
   that the declarative meaning of Piece.tla prescribes. *)
EXTENDS Play, TLC
CONSTANT MaxLen
One == << <<1, 1>> >>
Kinds == [rest : BOOLEAN, bpm : {0, 90}, key : {<<>>, <<71>>}, vel : {"", "ff"}, txt : {<<>>, <<120>>}, lic : {<<>>, <<108>>}]
Inst(k) == [rest |-> k.rest, deg |-> <<49>>, base |-> <<>>, sym |-> "", vals |-> One, bpm |-> k.bpm,
            meter |-> IF k.bpm = 90 /\ k.vel = "ff" THEN <<3, 4>> ELSE <<>>, vel |-> k.vel, key |-> k.key,
            txt |-> k.txt, lic |-> k.lic, mrk |-> IF k.txt # <<>> /\ k.lic # <<>> THEN <<109>> ELSE <<>>]
Docs == UNION {[1..n -> {Inst(k) : k \in Kinds}] : n \in 1..MaxLen}
FlagSets == [bpm : {0, 77}, meter : {<<>>}, vel : {"", "p"}, key : {<<>>, <<65, 109>>}]
VARIABLE flags
MCInit == \E d \in Docs : \E f \in FlagSets : flags = f /\ PInit(Eff(d, f))
MCNext == PNext /\ UNCHANGED flags
MCSpec == MCInit /\ [][MCNext]_<<pvars, flags>>
\* the mechanism refines the meaning: at the end the calls are the meaning, and on the way a prefix of it
IsPrefixSeq2(a, b) == Len(a) <= Len(b) /\ SubSeq(b, 1, Len(a)) = a
RefinesMeaning == /\ IsPrefixSeq2(calls, Meaning(doc))
                  /\ (phase = "done" => calls = Meaning(doc))
\* tempo, meter and key are stated before the first strike
StatedAtStart == (i > 1) => /\ calls[1][1] = "tempo" /\ calls[2][1] = "meter" /\ calls[3][1] = "key"
=============================================================================
