SPECIFICATION Spec
INVARIANTS Verdict ReaderAgrees
CHECK_DEADLOCK TRUE
