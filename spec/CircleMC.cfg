SPECIFICATION Spec
INVARIANTS Refines ChoiceIndependent
CHECK_DEADLOCK FALSE
