------------------------------ MODULE ChordLang ------------------------------
(***************************************************************************)
(* The chord language over tokens, written by hand as a regular recogniser *)
(* with a tree builder (the language has no nesting) -- a second,          *)
(* independent formulation next to Grammar.tla, which derives the same     *)
(* language from the productions of chords.y (ChordLangMC.tla checks that  *)
(* the two agree on every sentence up to the bound).                       *)
(*                                                                          *)
(*   piece  := item+                                                        *)
(*   item   := REST "[" values "]" meta?  |  degree symbol? base? "[" values "]" meta? *)
(*   degree := (SYLLABLE | NUMBER) (SHARP | FLAT)?                          *)
(*   symbol := SYMBOL | "_" SYMBOL          base := "/" degree              *)
(*   values := value ("," value)*           value := NUMBER ("/" NUMBER)?   *)
(*   meta   := "{" pair ("," pair)* "}"     pair := METADATA "=" METADATA   *)
(*                                                                          *)
(* A token is [t |-> type, v |-> text].  A tree item is                     *)
(*   [rest, root, acc, hasSym, sym, hasBase, broot, bacc, vals, meta]       *)
(* with vals a sequence of <<num, denom>> (denom <<>> when absent) and meta *)
(* a sequence of <<key, value>>.                                            *)
(***************************************************************************)
EXTENDS Integers, Sequences, FiniteSets
TT(toks, i) == IF i <= Len(toks) THEN toks[i].t ELSE "$end"
Fail == [ok |-> FALSE, next |-> 0]

\* degree at i -> [ok, next, root, acc]
PDegree(toks, i) ==
  IF TT(toks, i) \in {"SYLLABLE", "NUMBER"}
  THEN IF TT(toks, i + 1) \in {"SHARP", "FLAT"}
       THEN [ok |-> TRUE, next |-> i + 2, root |-> toks[i].v, acc |-> toks[i + 1].v]
       ELSE [ok |-> TRUE, next |-> i + 1, root |-> toks[i].v, acc |-> <<>>]
  ELSE [ok |-> FALSE, next |-> i, root |-> <<>>, acc |-> <<>>]

\* values at i (after "[") -> [ok, next (after "]"), vals]
RECURSIVE PValues(_, _, _)
PValues(toks, i, acc) ==
  IF TT(toks, i) # "NUMBER" THEN [ok |-> FALSE, next |-> i, vals |-> acc]
  ELSE LET hasDen == TT(toks, i + 1) = "SLASH" /\ TT(toks, i + 2) = "NUMBER"
           j == IF hasDen THEN i + 3 ELSE i + 1
           v == <<toks[i].v, IF hasDen THEN toks[i + 2].v ELSE <<>> >>
       IN IF TT(toks, j) = "COMMA" THEN PValues(toks, j + 1, Append(acc, v))
          ELSE IF TT(toks, j) = "RBRA" THEN [ok |-> TRUE, next |-> j + 1, vals |-> Append(acc, v)]
          ELSE [ok |-> FALSE, next |-> j, vals |-> acc]

\* metadata pairs at i (after "{") -> [ok, next (after "}"), meta]
RECURSIVE PPairs(_, _, _)
PPairs(toks, i, acc) ==
  IF TT(toks, i) = "METADATA" /\ TT(toks, i + 1) = "EQUAL" /\ TT(toks, i + 2) = "METADATA"
  THEN LET p == <<toks[i].v, toks[i + 2].v>> IN
       IF TT(toks, i + 3) = "COMMA" THEN PPairs(toks, i + 4, Append(acc, p))
       ELSE IF TT(toks, i + 3) = "RCBRA" THEN [ok |-> TRUE, next |-> i + 4, meta |-> Append(acc, p)]
       ELSE [ok |-> FALSE, next |-> i, meta |-> acc]
  ELSE [ok |-> FALSE, next |-> i, meta |-> acc]

\* "[" values "]" meta? at i -> [ok, next, vals, meta]
PTail(toks, i) ==
  IF TT(toks, i) # "LBRA" THEN [ok |-> FALSE, next |-> i, vals |-> <<>>, meta |-> <<>>]
  ELSE LET v == PValues(toks, i + 1, <<>>) IN
       IF ~v.ok THEN [ok |-> FALSE, next |-> i, vals |-> <<>>, meta |-> <<>>]
       ELSE IF TT(toks, v.next) = "LCBRA"
            THEN LET m == PPairs(toks, v.next + 1, <<>>) IN
                 [ok |-> m.ok, next |-> m.next, vals |-> v.vals, meta |-> m.meta]
            ELSE [ok |-> TRUE, next |-> v.next, vals |-> v.vals, meta |-> <<>>]

PItem(toks, i) ==
  IF TT(toks, i) = "REST"
  THEN LET t == PTail(toks, i + 1) IN
       [ok |-> t.ok, next |-> t.next,
        item |-> [rest |-> TRUE, root |-> <<>>, acc |-> <<>>, hasSym |-> FALSE, sym |-> <<>>, hasBase |-> FALSE,
                  broot |-> <<>>, bacc |-> <<>>, vals |-> t.vals, meta |-> t.meta]]
  ELSE LET d == PDegree(toks, i) IN
       IF ~d.ok THEN [ok |-> FALSE, next |-> i, item |-> <<>>]
       ELSE LET under == TT(toks, d.next) = "UNDERSCORE"
                si == IF under THEN d.next + 1 ELSE d.next
                hasSym == TT(toks, si) = "SYMBOL"
                afterSym == IF hasSym THEN si + 1 ELSE si
            IN IF under /\ ~hasSym THEN [ok |-> FALSE, next |-> i, item |-> <<>>]
               ELSE LET hasBase == TT(toks, afterSym) = "SLASH"
                        b == IF hasBase THEN PDegree(toks, afterSym + 1) ELSE [ok |-> TRUE, next |-> afterSym, root |-> <<>>, acc |-> <<>>]
                    IN IF ~b.ok THEN [ok |-> FALSE, next |-> i, item |-> <<>>]
                       ELSE LET t == PTail(toks, b.next) IN
                            [ok |-> t.ok, next |-> t.next,
                             item |-> [rest |-> FALSE, root |-> d.root, acc |-> d.acc, hasSym |-> hasSym,
                                       sym |-> IF hasSym THEN toks[si].v ELSE <<>>, hasBase |-> hasBase,
                                       broot |-> b.root, bacc |-> b.acc, vals |-> t.vals, meta |-> t.meta]]

RECURSIVE PItems(_, _, _)
PItems(toks, i, acc) ==
  IF i > Len(toks) THEN [ok |-> acc # <<>>, items |-> acc]          \* at least one chord or rest
  ELSE LET it == PItem(toks, i) IN
       IF ~it.ok THEN [ok |-> FALSE, items |-> <<>>] ELSE PItems(toks, it.next, Append(acc, it.item))
Parse(toks) == PItems(toks, 1, <<>>)
=============================================================================
