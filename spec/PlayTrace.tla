----------------------------- MODULE PlayTrace -----------------------------
(***************************************************************************)
(* Trace validation of the real play package against Play.tla.  A record   *)
(* is one instance list handed in-process to play.MIDIWriter.Write with a  *)
(* recording midix.Writer: the sequence of writer calls it made.  The spec *)
(* replays the document through the Opt-cell mechanism (Update / Flush /   *)
(* Strike), consuming the recorded calls as the mechanism produces them:   *)
(* every recorded call must be the call the model makes next, with the     *)
(* right arguments; at the end nothing may be left over.                    *)
(***************************************************************************)
EXTENDS Play, Json, TLC
Recs == ndJsonDeserialize("records.ndjson")
VARIABLES l, j, err          \* record, recorded calls consumed, first divergence
tvars == <<doc, i, phase, cells, calls, l, j, err>>
NoFlags == [bpm |-> 0, meter |-> <<>>, vel |-> "", key |-> <<>>]
TInit == /\ l \in 1..Len(Recs) /\ j = 0 /\ err = ""
         /\ PInit(Recs[l].doc)
Real == Recs[l].calls
\* does the recorded call r realise the abstract call a ?
KeyArgsOk(r, keychars) == LET k == ParseKey(keychars).k IN
   /\ r[2] = KeyOffset(k) % 256 /\ r[3] = ~k.minor /\ r[4] = Abs(Signature(k)) /\ r[5] = (Signature(k) < 0)
Realises(r, a) ==
  /\ r[1] = a[1]
  /\ CASE a[1] = "tempo" -> r[2] = a[2]
       [] a[1] = "meter" -> <<r[2], r[3]>> = a[2]
       [] a[1] = "key" -> KeyArgsOk(r, a[2])
       [] a[1] \in {"text", "lyric", "marker"} -> r[2] = a[2]
       [] a[1] = "rest" -> r[2] \in TickChoices(960, doc[a[2]].vals)
       [] a[1] = "note" -> /\ r[2] \in TickChoices(960, doc[a[2]].vals)
                           /\ BagOfSeq(r[4]) = ExpectedKeys(doc[a[2]], a[3])        \* the key in force voices the chord
       [] a[1] = "close" -> TRUE
       [] OTHER -> FALSE
\* after a model step that appended calls, the recorded trace must continue with their realisations
Consume == LET new == SubSeq(calls', Len(calls) + 1, Len(calls'))
           IN IF j + Len(new) <= Len(Real) /\ \A x \in 1..Len(new) : Realises(Real[j + x], new[x])
              THEN j' = j + Len(new) /\ err' = ""
              ELSE j' = j /\ err' = "the real play package made a different call here"
Step == err = "" /\ phase # "done" /\ PNext /\ Consume /\ l' = l
Done == (phase = "done" \/ err # "") /\ UNCHANGED tvars
TSpec == TInit /\ [][Step \/ Done]_tvars
Conforms == err = ""
Complete == (phase = "done" /\ err = "") => (j = Len(Real) /\ Recs[l].ok)
\* a dynamic holds for all following notes, louder never quieter (velocities of the recorded note calls)
NoteCalls == SelectSeq(Real, LAMBDA r : r[1] = "note")
ChordIdx == LET RECURSIVE F(_)  F(k) == IF k > Len(doc) THEN <<>> ELSE (IF doc[k].rest THEN <<>> ELSE <<k>>) \o F(k + 1) IN F(1)
DynOfNote(k) == DynInForce(doc, ChordIdx[k])
DynRank(s) == CASE s = "pp" -> 1 [] s = "p" -> 2 [] s = "mp" -> 3 [] s = "mf" -> 4 [] s = "f" -> 5 [] s = "ff" -> 6 [] OTHER -> 0
Velocities == (phase = "done" /\ err = "") =>
   \A a, b \in 1..Len(NoteCalls) :
      /\ (DynOfNote(a) = DynOfNote(b) => NoteCalls[a][3] = NoteCalls[b][3])
      /\ (DynRank(DynOfNote(a)) > 0 /\ DynRank(DynOfNote(b)) > DynRank(DynOfNote(a)) => NoteCalls[b][3] > NoteCalls[a][3])
\* the mechanism's own theorem, evaluated on documents the real code was given
RefinesMeaning == phase = "done" => calls = Meaning(doc)
=============================================================================
