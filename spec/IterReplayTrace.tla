-------------------------- MODULE IterReplayTrace --------------------------
(***************************************************************************)
(* Verdict on the replay of TLC-generated behaviours of IterVisitor.tla on *)
(* the real ast.IterVisitor.All (vinproc gate).  A record is one behaviour: *)
(*   n, stopAt       the constants N and StopAt of the model run            *)
(*   cap             the capacity of the real channel                       *)
(*   steps, diff     actions replayed; the first difference between the     *)
(*                   real object's abstract state and the model's, if any   *)
(*   finished        the behaviour reaches the end of the model (returned)  *)
(*   realReturned, realGot   the real iterator returned; nodes its loop     *)
(*                   body has seen                                           *)
(***************************************************************************)
EXTENDS Integers, Sequences, Json, TLC
Recs == ndJsonDeserialize("records.ndjson")
VARIABLE l
Init == l \in 1..Len(Recs)
Next == UNCHANGED l
Spec == Init /\ [][Next]_l
R == Recs[l]
\* step by step: the real iterator did what the model did (mechanism level: drift when it does not)
Conforms == R.kind = "gate" => R.diff = "" /\ R.cap = 100
\* what-level, whatever the mechanism: a behaviour that runs to its end leaves the loop body with exactly the nodes up
\* to the one it stops at (all of them if it never stops), and the iterator returns
\* (finished = the replay itself reached the end of the behaviour; "plain" = the same question asked of an ungated run, so
\* that the verdict does not rest on the gate when the mechanism has moved)
Outcome == ((R.kind = "gate" /\ R.finished) \/ R.kind = "plain") =>
             /\ R.realReturned
             /\ R.realGot = (IF R.stopAt \in 1..R.n THEN R.stopAt ELSE R.n)
\* the model's send is not enabled on a full channel: the real producer, let through its gate once more than the channel
\* holds, does not get its node in before somebody takes one -- and afterwards every node arrives, in order
FullProbe == R.kind = "fullprobe" =>
               /\ R.note = ""
               /\ ~R.passedFull
               /\ R.allSeen /\ R.inOrder
=============================================================================
