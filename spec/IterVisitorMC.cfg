CONSTANTS N = 6
 Cap = 2
 StopAt = 3
SPECIFICATION FairSpec
INVARIANTS Order Result NoLeak ChannelBound
PROPERTY Termination
CHECK_DEADLOCK FALSE
