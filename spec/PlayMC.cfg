CONSTANT MaxLen = 2
SPECIFICATION MCSpec
INVARIANTS RefinesMeaning StatedAtStart
CHECK_DEADLOCK FALSE
