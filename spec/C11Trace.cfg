SPECIFICATION Spec
INVARIANTS DriverClaimC11 C11Inv
CHECK_DEADLOCK FALSE
