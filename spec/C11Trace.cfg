SPECIFICATION Spec
INVARIANTS DriverClaimC11 C11Inv DriverClaimStretch StretchInv
CHECK_DEADLOCK FALSE
