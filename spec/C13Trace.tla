------------------------------ MODULE C13Trace ------------------------------
(***************************************************************************)
(* C13 -- every supported key has the right scale and key signature.       *)
(* One state per record observed from the real binary (`info key list`,    *)
(* `info key describe --key K` for all 42 spellings); the invariant is the *)
(* oracle equation of Theory.tla evaluated on that observation.            *)
(***************************************************************************)
EXTENDS Theory, Json, TLC
Recs == ndJsonDeserialize("records.ndjson")
VARIABLE l
Init == l = 1
Next == l <= Len(Recs) /\ l' = l + 1
Spec == Init /\ [][Next]_l

NoDup(s) == \A i, j \in 1..Len(s) : i # j => s[i] # s[j]

ScaleOk(r) ==
  LET pk == ParseKey(r.key) IN
  /\ r.key = r.asked                       \* it describes the key that was asked for
  /\ pk.ok /\ Writable(pk.k)               \* only keys with a conventional signature have a scale
  /\ Len(r.notes) = 7
  /\ \A i \in 1..7 : LET n == ParseNote(r.notes[i]) IN
                     n.ok /\ [l |-> n.l, a |-> n.a] = ScaleNotes(pk.k)[i]
  /\ LET s == Signature(pk.k) IN
     /\ r.sharp = (IF s > 0 THEN s ELSE 0)
     /\ r.flat  = (IF s < 0 THEN -s ELSE 0)

RejectedOk(r) ==
  LET pk == ParseKey(r.asked) IN
  /\ ~(pk.ok /\ Supported(pk.k))           \* a supported key is never refused (how a refusal looks is C09's business)

ListingOk(r) ==
  /\ r.ok
  /\ \A k \in SupportedKeys : PrintKey(k) \in Range(r.keys)

RecOk(r) == CASE r.kind = "skipped" -> TRUE
              [] r.kind = "listing" -> ListingOk(r)
              [] r.kind \in {"listed", "describe"} -> IF r.described THEN ScaleOk(r) ELSE RejectedOk(r)
              [] OTHER -> FALSE
Inv == l <= Len(Recs) => RecOk(Recs[l])
Done == l = Len(Recs) + 1
=============================================================================
