------------------------------- MODULE ConvMC -------------------------------
(***************************************************************************)
(* Model-level theorems behind C05 (no real code involved):                *)
(*  - writing a chord with a degree number or with the note that lies that *)
(*    interval above the tonic denotes the same interval, in every key     *)
(*    (whenever the note is spellable with at most one accidental);        *)
(*  - the same for the bass over the root;                                  *)
(*  - the converter fold applies a key change from the carrying item on:   *)
(*    for every two-item piece with a {key=K2} on the first or the second  *)
(*    item, degree text and note-name text convert to the same instances.  *)
(* One state per (key, key2, degree, alteration, bass degree, placement).  *)
(***************************************************************************)
EXTENDS Conv, TLC
CONSTANT Depth          \* 1: a slice (3 second keys, one bass degree); 2: everything
VARIABLES k1, k2, n, a, bn, ba, place
vars == <<k1, k2, n, a, bn, ba, place>>
K2Set == IF Depth = 1 THEN {k \in SupportedKeys : (~k.minor /\ Signature(k) \in {-7, 6}) \/ (k.minor /\ Signature(k) = 3)}
         ELSE {k \in SupportedKeys : k.l \in {0, 3} \/ Signature(k) \in {-7, 7, 6, -6}}
BNSet == IF Depth = 1 THEN {5} ELSE {1, 3, 5, 7}
Init == /\ k1 \in SupportedKeys /\ k2 \in K2Set
        /\ n \in 1..7 /\ a \in {-1, 0, 1} /\ bn \in BNSet /\ ba \in {-1, 0, 1} /\ place \in {0, 1, 2}
Next == UNCHANGED vars
Spec == Init /\ [][Next]_vars

TextQ(nn, aa) == IF aa = 1 THEN "A" ELSE IF aa = -1 THEN (IF PerfectClass(nn) THEN "d" ELSE "m") ELSE (IF PerfectClass(nn) THEN "P" ELSE "M")
TextIv(nn, aa) == [n |-> nn, q |-> TextQ(nn, aa)]
\* the note an interval above x, with its accidental; spellable iff the accidental is in -1..1
Above(x, iv) == LET L == (x.l + iv.n - 1) % 7
                    acc == ((NotePitch(x) + Size(iv) - LetterPc[L + 1] + 6) % 12) - 6
                IN [l |-> L, a |-> acc]
Spellable(y) == y.a \in {-1, 0, 1}
AccChars(x) == IF x = 1 THEN <<chSharp>> ELSE IF x = -1 THEN <<chFlat>> ELSE <<>>
One == << <<<<49>>, <<>> >> >>
KeyMeta(k) == << <<kKEY, PrintKey(k)>> >>
\* a chord item in degree notation / in note names relative to tonic t
DegItem(nn, aa, bnn, baa, meta) == [rest |-> FALSE, root |-> DigitsOf(nn), acc |-> AccChars(aa), hasSym |-> FALSE, sym |-> <<>>,
                                    hasBase |-> TRUE, broot |-> DigitsOf(bnn), bacc |-> AccChars(baa), vals |-> One, meta |-> meta]
SylItem(t, nn, aa, bnn, baa, meta) ==
  LET r == Above(t, TextIv(nn, aa))  b == Above(r, TextIv(bnn, baa)) IN
  [rest |-> FALSE, root |-> <<CharOfLetter[r.l + 1]>>, acc |-> AccChars(r.a), hasSym |-> FALSE, sym |-> <<>>,
   hasBase |-> TRUE, broot |-> <<CharOfLetter[b.l + 1]>>, bacc |-> AccChars(b.a), vals |-> One, meta |-> meta]
AllSpellable(t, nn, aa, bnn, baa) == LET r == Above(t, TextIv(nn, aa)) IN Spellable(r) /\ Spellable(Above(r, TextIv(bnn, baa)))

\* single chord: the interval read back from the note is the interval written as a degree
RoundTrip == LET t == ScaleNotes(k1)[1]  y == Above(t, TextIv(n, a)) IN
             Spellable(y) => NoteInterval(t, <<CharOfLetter[y.l + 1]>>, AccChars(y.a), TRUE).iv = TextIv(n, a)
\* two items, key change on the first (place 1), on the second (place 2) or nowhere (place 0)
TwoItems ==
  LET t1 == ScaleNotes(k1)[1]  t2 == ScaleNotes(k2)[1]
      m1 == IF place = 1 THEN KeyMeta(k2) ELSE <<>>
      m2 == IF place = 2 THEN KeyMeta(k2) ELSE <<>>
      ta == IF place = 1 THEN t2 ELSE t1               \* the tonic the first / second chord is read against
      tb == IF place = 0 THEN t1 ELSE t2
      deg == << DegItem(n, a, bn, ba, m1), DegItem(bn, ba, n, a, m2) >>
      syl == << SylItem(ta, n, a, bn, ba, m1), SylItem(tb, bn, ba, n, a, m2) >>
  IN (AllSpellable(ta, n, a, bn, ba) /\ AllSpellable(tb, bn, ba, n, a)) =>
       LET d == ConvertPiece(deg, "degree", [l |-> 0, a |-> 0, minor |-> FALSE])
           s == ConvertPiece(syl, "syllable", k1)
       IN d.ok /\ s.ok /\ d.out = s.out
=============================================================================
