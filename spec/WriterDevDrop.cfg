CONSTANTS N = 1
 L = 2
SPECIFICATION DevDropSpec
INVARIANTS EOTInv
CHECK_DEADLOCK FALSE
