------------------------------ MODULE C17Trace ------------------------------
(* C17 -- the diatonic chords `info key describe` reports are playable and stay inside the key. *)
EXTENDS Theory, Json, TLC
Recs == ndJsonDeserialize("records.ndjson")
VARIABLE l
Init == l = 1
Next == l <= Len(Recs) /\ l' = l + 1
Spec == Init /\ [][Next]_l

Mod12(S) == {x % 12 : x \in S}
ChordOk(r) ==
  LET pk == ParseKey(r.key)   k == pk.k
      note == ScaleNotes(k)[r.i]
      pn == PrintNote(note)
      tones == HarmoniseTones(k, r.i, r.depth)           \* stacked thirds on scale degree i
      scalePcs == {Pc(ScaleNotes(k)[j]) : j \in 1..7}
      d == ParseInterval(r.degree)
  IN
  /\ pk.ok /\ Supported(k) /\ r.i \in 1..7
  \* written on the i-th scale note, in crd's own chord notation (it converts), with the textbook quality
  /\ Len(r.text) >= Len(pn) /\ SubSeq(r.text, 1, Len(pn)) = pn
  /\ r.convOk              \* (a bass, if the instance states one, shows in what sounds)
  /\ d.ok /\ d.iv.n = r.i /\ (Size(d.iv) - (NotePitch(note) - NotePitch(ScaleNotes(k)[1]))) % 12 = 0
  \* (the name may be any name crd's dictionary knows the chord by; when it is one of the display symbols of C16's table it
  \* is the right one -- the quality itself is decided by the sound, below)
  /\ (r.name \in ChordSymbols => ChordTones(r.name) = tones)
  \* fed back through write: sounds only notes of the scale, and exactly this chord
  /\ r.writeOk
  /\ Mod12(Range(r.ons)) \subseteq scalePcs
  /\ Mod12(Range(r.ons)) = Mod12({Pc(note) + t : t \in tones})
\* the 14 chords in one piece, twice: chord q (1..28) is degree ((q-1) % 7) + 1, a triad for q in 1..7 and 15..21
SeqOk(r) ==
  LET k == ParseKey(r.key).k  scalePcs == {Pc(ScaleNotes(k)[j]) : j \in 1..7} IN
  /\ r.ok /\ Len(r.runs) = 28
  /\ \A q \in 1..28 :
        LET i == ((q - 1) % 7) + 1  depth == IF ((q - 1) \div 7) % 2 = 0 THEN 3 ELSE 4
            tones == HarmoniseTones(k, i, depth) IN
        /\ Mod12(Range(r.runs[q])) \subseteq scalePcs
        /\ Mod12(Range(r.runs[q])) = Mod12({Pc(ScaleNotes(k)[i]) + t : t \in tones})
RecOk(r) == CASE r.kind = "skipped" -> TRUE
              [] r.kind = "seq" -> SeqOk(r)
              [] r.kind = "lists" -> r.ntriads = 7 /\ r.nsevenths = 7
              [] r.kind = "chord" -> ChordOk(r)
              [] OTHER -> FALSE          \* "nodesc": a supported key was not described
Inv == l <= Len(Recs) => RecOk(Recs[l])
=============================================================================
