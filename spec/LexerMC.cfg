CONSTANT K = 3
SPECIFICATION Spec
INVARIANTS NothingDropped EndsAtEnd OnlySymbolError SymMode MetaMode TokenTexts
PROPERTIES Progress Terminates
CHECK_DEADLOCK TRUE
