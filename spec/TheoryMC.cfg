CONSTANT MaxN = 64
SPECIFICATION Spec
INVARIANTS ScaleAgrees LettersOnce StepsRight RelativeShares SupportedCount SharpFlatMirror AlteredAreFirstN
  SizeAgrees NotationRoundTrip InvalidRejected HarmoniseRight DiatonicInsideScale
CHECK_DEADLOCK FALSE
