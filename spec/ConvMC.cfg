CONSTANT Depth = 1
SPECIFICATION Spec
INVARIANTS RoundTrip TwoItems
CHECK_DEADLOCK FALSE
