CONSTANTS N = 2
 W = 16
 Max = 5
 L = 4
 K = 7
 Wrap = TRUE
SPECIFICATION SSpec
INVARIANTS Faithful
CHECK_DEADLOCK FALSE
