CONSTANTS N = 130
 Cap = 100
 StopAt = 0
SPECIFICATION FillSpec
CHECK_DEADLOCK FALSE
