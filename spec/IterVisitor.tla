---------------------------- MODULE IterVisitor ----------------------------
(***************************************************************************)
(* The only concurrency in crd (property C12): ast.IterVisitor.All streams *)
(* the AST nodes from a producer goroutine through a bounded channel to    *)
(* the consumer (the range-over-func loop of the classifier), which may    *)
(* stop early; it then drains the channel so that the producer terminates. *)
(*                                                                          *)
(*   N    number of AST nodes (document order 1..N)                         *)
(*   Cap  channel capacity (100 in the code; small here)                    *)
(*   StopAt  the node at which the consumer's loop body says "stop"        *)
(*           (0 = never: classification reads the whole tree)               *)
(***************************************************************************)
EXTENDS Integers, Sequences, TLC
CONSTANTS N, Cap, StopAt

(* --algorithm IterVisitor
variables ch = <<>>, closed = FALSE, sent = 0, got = <<>>, stopped = FALSE, returned = FALSE;

process Producer = 1
begin
  P: while sent < N do
       await Len(ch) < Cap;               \* s.nodeC <- v   (blocks while the channel is full)
       ch := Append(ch, sent + 1);
       sent := sent + 1;
     end while;
  PC: closed := TRUE;                     \* close(s.nodeC)
end process;

process Consumer = 2
variable x = 0;
begin
  C: while ~stopped /\ ~(closed /\ ch = <<>>) do       \* for x := range s.nodeC { if !yield(x) { break } }
       await ch # <<>> \/ closed;
       if ch # <<>> then
         x := Head(ch);
         ch := Tail(ch);
         got := Append(got, x);
         if x = StopAt then stopped := TRUE; end if;
       end if;
     end while;
  D: while ~(closed /\ ch = <<>>) do                   \* for range s.nodeC {}   (drain)
       await ch # <<>> \/ closed;
       if ch # <<>> then ch := Tail(ch); end if;
     end while;
  R: returned := TRUE;
end process;
end algorithm; *)
\* BEGIN TRANSLATION (chksum(pcal) = "5575c023" /\ chksum(tla) = "1c21bbd7")
VARIABLES pc, ch, closed, sent, got, stopped, returned, x

vars == << pc, ch, closed, sent, got, stopped, returned, x >>

ProcSet == {1} \cup {2}

Init == (* Global variables *)
        /\ ch = <<>>
        /\ closed = FALSE
        /\ sent = 0
        /\ got = <<>>
        /\ stopped = FALSE
        /\ returned = FALSE
        (* Process Consumer *)
        /\ x = 0
        /\ pc = [self \in ProcSet |-> CASE self = 1 -> "P"
                                        [] self = 2 -> "C"]

P == /\ pc[1] = "P"
     /\ IF sent < N
           THEN /\ Len(ch) < Cap
                /\ ch' = Append(ch, sent + 1)
                /\ sent' = sent + 1
                /\ pc' = [pc EXCEPT ![1] = "P"]
           ELSE /\ pc' = [pc EXCEPT ![1] = "PC"]
                /\ UNCHANGED << ch, sent >>
     /\ UNCHANGED << closed, got, stopped, returned, x >>

PC == /\ pc[1] = "PC"
      /\ closed' = TRUE
      /\ pc' = [pc EXCEPT ![1] = "Done"]
      /\ UNCHANGED << ch, sent, got, stopped, returned, x >>

Producer == P \/ PC

C == /\ pc[2] = "C"
     /\ IF ~stopped /\ ~(closed /\ ch = <<>>)
           THEN /\ ch # <<>> \/ closed
                /\ IF ch # <<>>
                      THEN /\ x' = Head(ch)
                           /\ ch' = Tail(ch)
                           /\ got' = Append(got, x')
                           /\ IF x' = StopAt
                                 THEN /\ stopped' = TRUE
                                 ELSE /\ TRUE
                                      /\ UNCHANGED stopped
                      ELSE /\ TRUE
                           /\ UNCHANGED << ch, got, stopped, x >>
                /\ pc' = [pc EXCEPT ![2] = "C"]
           ELSE /\ pc' = [pc EXCEPT ![2] = "D"]
                /\ UNCHANGED << ch, got, stopped, x >>
     /\ UNCHANGED << closed, sent, returned >>

D == /\ pc[2] = "D"
     /\ IF ~(closed /\ ch = <<>>)
           THEN /\ ch # <<>> \/ closed
                /\ IF ch # <<>>
                      THEN /\ ch' = Tail(ch)
                      ELSE /\ TRUE
                           /\ ch' = ch
                /\ pc' = [pc EXCEPT ![2] = "D"]
           ELSE /\ pc' = [pc EXCEPT ![2] = "R"]
                /\ ch' = ch
     /\ UNCHANGED << closed, sent, got, stopped, returned, x >>

R == /\ pc[2] = "R"
     /\ returned' = TRUE
     /\ pc' = [pc EXCEPT ![2] = "Done"]
     /\ UNCHANGED << ch, closed, sent, got, stopped, x >>

Consumer == C \/ D \/ R

(* Allow infinite stuttering to prevent deadlock on termination. *)
Terminating == /\ \A self \in ProcSet: pc[self] = "Done"
               /\ UNCHANGED vars

Next == Producer \/ Consumer
           \/ Terminating

Spec == Init /\ [][Next]_vars

Termination == <>(\A self \in ProcSet: pc[self] = "Done")

\* END TRANSLATION 

\* ---- properties
FairSpec == Spec /\ WF_vars(Producer) /\ WF_vars(Consumer)
Nodes == [i \in 1..N |-> i]
IsPrefixOf(a, b) == Len(a) <= Len(b) /\ \A i \in 1..Len(a) : a[i] = b[i]
\* nodes are delivered in document order, each at most once
Order == IsPrefixOf(got, Nodes)
\* the loop body sees exactly the nodes up to the one it stops at (or all of them)
Result == returned => got = (IF StopAt \in 1..N THEN SubSeq(Nodes, 1, StopAt) ELSE Nodes)
\* when All's iterator function returns, the producer goroutine has finished (no leak)
NoLeak == returned => pc[1] = "Done" /\ closed /\ ch = <<>>
ChannelBound == Len(ch) <= Cap
\* every run ends with both goroutines done: no deadlock once the tree exceeds the channel capacity
=============================================================================
