------------------------------- MODULE Theory -------------------------------
(***************************************************************************)
(* The "what" layer shared by every crd property: music theory as a user   *)
(* knows it, written from theory and from crd's documented notations --    *)
(* NOT transcribed from the Go code.                                        *)
(*                                                                          *)
(*   letters, pitch classes, notes, intervals (number + quality), sizes,   *)
(*   the two interval notations, keys, key signatures, scales, the chord   *)
(*   symbol table of property C16, diatonic harmonisation.                 *)
(*                                                                          *)
(* Text is handled as sequences of Unicode code points (TLC cannot index   *)
(* strings and the Json module mangles non-ASCII text).                    *)
(***************************************************************************)
EXTENDS Integers, Sequences, FiniteSets

----------------------------------------------------------------------------
(* Characters                                                              *)
chSharp == 35          \* #
chFlat  == 98          \* b
chUSharp == 9839       \* U+266F music sharp sign
chUFlat  == 9837       \* U+266D music flat sign
chMinor == 109         \* m
chSlash == 47
chUnderscore == 95
IsDigit(c) == c >= 48 /\ c <= 57
\* C D E F G A B are letters 0..6
LetterOfChar(c) == CASE c = 67 -> 0 [] c = 68 -> 1 [] c = 69 -> 2 [] c = 70 -> 3
                     [] c = 71 -> 4 [] c = 65 -> 5 [] c = 66 -> 6 [] OTHER -> -1
CharOfLetter == <<67, 68, 69, 70, 71, 65, 66>>
IsLetterChar(c) == LetterOfChar(c) >= 0

RECURSIVE NatOfDigits(_)
NatOfDigits(s) == IF s = <<>> THEN 0 ELSE NatOfDigits(SubSeq(s, 1, Len(s) - 1)) * 10 + (s[Len(s)] - 48)
AllDigits(s) == s # <<>> /\ \A i \in 1..Len(s) : IsDigit(s[i])

Max(a, b) == IF a >= b THEN a ELSE b
Min(a, b) == IF a <= b THEN a ELSE b
Abs(a) == IF a < 0 THEN -a ELSE a
RECURSIVE SumSeq(_)
SumSeq(s) == IF s = <<>> THEN 0 ELSE Head(s) + SumSeq(Tail(s))
Range(s) == {s[i] : i \in 1..Len(s)}

----------------------------------------------------------------------------
(* Notes                                                                    *)
LetterPc == <<0, 2, 4, 5, 7, 9, 11>>          \* semitones of C D E F G A B above C
NotePitch(n) == LetterPc[n.l + 1] + n.a        \* as written: Cb = -1, B# = 12
Pc(n) == NotePitch(n) % 12                     \* pitch class 0..11

\* "C", "Eb", "F#" (ASCII accidentals) -> [ok, l, a]
ParseNote(s) ==
  IF Len(s) = 1 /\ IsLetterChar(s[1]) THEN [ok |-> TRUE, l |-> LetterOfChar(s[1]), a |-> 0]
  ELSE IF Len(s) = 2 /\ IsLetterChar(s[1]) /\ s[2] \in {chSharp, chFlat}
       THEN [ok |-> TRUE, l |-> LetterOfChar(s[1]), a |-> IF s[2] = chSharp THEN 1 ELSE -1]
  ELSE [ok |-> FALSE, l |-> 0, a |-> 0]

PrintNote(n) == <<CharOfLetter[n.l + 1]>> \o (IF n.a = 1 THEN <<chSharp>> ELSE IF n.a = -1 THEN <<chFlat>> ELSE <<>>)

----------------------------------------------------------------------------
(* Intervals: number n >= 1 and a quality                                   *)
Qualities == {"M", "m", "P", "A", "d", "AA", "dd"}
PerfectClass(n) == ((n - 1) % 7) \in {0, 3, 4}          \* unison, fourth, fifth and their octaves
MajorScaleSize == <<0, 2, 4, 5, 7, 9, 11>>
BaseSize(n) == MajorScaleSize[((n - 1) % 7) + 1] + 12 * ((n - 1) \div 7)
ValidInterval(iv) == /\ iv.n >= 1
                     /\ IF PerfectClass(iv.n) THEN iv.q \in {"P", "A", "d", "AA", "dd"}
                                              ELSE iv.q \in {"M", "m", "A", "d", "AA", "dd"}
\* textbook size (property C15): major-scale size + 12 per octave, -1 minor, +1 augmented,
\* -1 (from perfect) / -2 (from major) diminished, one more for doubly
Size(iv) == BaseSize(iv.n) +
            CASE iv.q \in {"M", "P"} -> 0
              [] iv.q = "m"  -> -1
              [] iv.q = "A"  -> 1
              [] iv.q = "AA" -> 2
              [] iv.q = "d"  -> IF PerfectClass(iv.n) THEN -1 ELSE -2
              [] iv.q = "dd" -> IF PerfectClass(iv.n) THEN -2 ELSE -3

\* second, independent formulation of the size: walk n-1 steps up the major scale from C
RECURSIVE WalkMajor(_)
WalkMajor(steps) == IF steps = 0 THEN 0
                    ELSE WalkMajor(steps - 1) + <<2, 2, 1, 2, 2, 2, 1>>[((steps - 1) % 7) + 1]
Size2(iv) == WalkMajor(iv.n - 1) +
             (IF iv.q \in {"M", "P"} THEN 0 ELSE IF iv.q = "m" THEN -1 ELSE IF iv.q = "A" THEN 1
              ELSE IF iv.q = "AA" THEN 2
              ELSE IF iv.q = "d" THEN (IF PerfectClass(iv.n) THEN -1 ELSE -2)
              ELSE (IF PerfectClass(iv.n) THEN -2 ELSE -3))

(* crd's interval notation.  Marks: "" b # bb ## bbb.  "" is the major/perfect   *)
(* interval, b the minor one where a minor exists and the diminished one          *)
(* otherwise, # augmented, bb diminished, ## doubly augmented, bbb doubly         *)
(* diminished.  In instances YAML the marks precede the number ("b3"); in chord   *)
(* text one mark follows it ("3b").                                               *)
MarksOfQuality(q) == CASE q \in {"M", "P"} -> <<>>
                       [] q = "m"  -> <<chFlat>>
                       [] q = "A"  -> <<chSharp>>
                       [] q = "d"  -> <<chFlat, chFlat>>
                       [] q = "AA" -> <<chSharp, chSharp>>
                       [] q = "dd" -> <<chFlat, chFlat, chFlat>>
ValidMarks == {<<>>, <<chFlat>>, <<chSharp>>, <<chFlat, chFlat>>, <<chSharp, chSharp>>, <<chFlat, chFlat, chFlat>>}
QualityOfMarks(marks, n) ==
  CASE marks = <<>>                        -> IF PerfectClass(n) THEN "P" ELSE "M"
    [] marks = <<chFlat>>                  -> IF PerfectClass(n) THEN "d" ELSE "m"
    [] marks = <<chSharp>>                 -> "A"
    [] marks = <<chFlat, chFlat>>          -> "d"
    [] marks = <<chSharp, chSharp>>        -> "AA"
    [] marks = <<chFlat, chFlat, chFlat>>  -> "dd"
    [] OTHER -> "?"

RECURSIVE DigitsOf(_)
DigitsOf(n) == IF n < 10 THEN <<48 + n>> ELSE DigitsOf(n \div 10) \o <<48 + (n % 10)>>
PrintInterval(iv) == MarksOfQuality(iv.q) \o DigitsOf(iv.n)          \* YAML form

\* length of the leading run of mark characters
RECURSIVE MarkRun(_)
MarkRun(s) == IF s # <<>> /\ Head(s) \in {chFlat, chSharp} THEN 1 + MarkRun(Tail(s)) ELSE 0
\* YAML form "marks digits" -> [ok, iv]
ParseInterval(s) ==
  LET k == MarkRun(s)  marks == SubSeq(s, 1, k)  digs == SubSeq(s, k + 1, Len(s)) IN
  IF marks \in ValidMarks /\ AllDigits(digs) /\ Len(digs) <= 4 /\ NatOfDigits(digs) >= 1
  THEN [ok |-> TRUE, iv |-> [n |-> NatOfDigits(digs), q |-> QualityOfMarks(marks, NatOfDigits(digs))]]
  ELSE [ok |-> FALSE, iv |-> [n |-> 1, q |-> "P"]]
\* text form "digits marks"
RECURSIVE DigitRun(_)
DigitRun(s) == IF s # <<>> /\ IsDigit(Head(s)) THEN 1 + DigitRun(Tail(s)) ELSE 0
ParseIntervalPostfix(s) ==
  LET k == DigitRun(s) IN ParseInterval(SubSeq(s, k + 1, Len(s)) \o SubSeq(s, 1, k))

P1 == [n |-> 1, q |-> "P"]

----------------------------------------------------------------------------
(* Keys, signatures, scales                                                 *)
\* a key is [l, a, minor]
FifthsPos == <<0, 2, 4, -1, 1, 3, 5>>          \* C D E F G A B on the line of fifths (sharps of the major key)
Signature(k) == FifthsPos[k.l + 1] + 7 * k.a - (IF k.minor THEN 3 ELSE 0)     \* >0 sharps, <0 flats
SharpOrder == <<3, 0, 4, 1, 5, 2, 6>>          \* F C G D A E B
FlatOrder  == <<6, 2, 5, 1, 4, 0, 3>>          \* B E A D G C F
AllKeys == [l : 0..6, a : {-1, 0, 1}, minor : BOOLEAN]
\* the keys property C13 names: 15 majors (7 flats .. 7 sharps), 13 minors (6 flats .. 6 sharps)
Supported(k) == IF k.minor THEN Abs(Signature(k)) <= 6 ELSE Abs(Signature(k)) <= 7
SupportedKeys == {k \in AllKeys : Supported(k)}
\* a key for which a conventional signature exists at all
Writable(k) == Abs(Signature(k)) <= 7

AccOfLetterInKey(k, L) ==
  LET s == Signature(k) IN
  IF s > 0 /\ \E j \in 1..s : SharpOrder[j] = L THEN 1
  ELSE IF s < 0 /\ \E j \in 1..(-s) : FlatOrder[j] = L THEN -1 ELSE 0
ScaleNotes(k) == [i \in 1..7 |-> LET L == (k.l + i - 1) % 7 IN [l |-> L, a |-> AccOfLetterInKey(k, L)]]
StepPattern(k) == IF k.minor THEN <<2, 1, 2, 2, 1, 2, 2>> ELSE <<2, 2, 1, 2, 2, 2, 1>>
\* second, independent definition: start on the tonic, follow the step pattern, spell with consecutive letters
RECURSIVE PitchAfter(_, _)
PitchAfter(k, i) == IF i = 1 THEN LetterPc[k.l + 1] + k.a ELSE PitchAfter(k, i - 1) + StepPattern(k)[i - 1]
ScaleNotesBySteps(k) ==
  [i \in 1..7 |-> LET L == (k.l + i - 1) % 7
                      octs == (k.l + i - 1) \div 7       \* letters wrapped past B
                  IN [l |-> L, a |-> PitchAfter(k, i) - (LetterPc[L + 1] + 12 * octs)]]
KeyOffset(k) == LetterPc[k.l + 1] + k.a       \* tonic above C as written: Cb = -1

ParseKey(s) ==
  LET minor == s # <<>> /\ s[Len(s)] = chMinor
      body == IF minor THEN SubSeq(s, 1, Len(s) - 1) ELSE s
      n == ParseNote(body)
  IN [ok |-> n.ok, k |-> [l |-> n.l, a |-> n.a, minor |-> minor]]
PrintKey(k) == PrintNote(k) \o (IF k.minor THEN <<chMinor>> ELSE <<>>)

\* interval from note x up to note y: number from letters, quality from pitch distance
IntervalNumber(x, y) == ((y.l - x.l + 7) % 7) + 1
QualityFor(n, semis) ==      \* the quality q (if any) with Size([n, q]) = semis
  LET c == {q \in Qualities : ValidInterval([n |-> n, q |-> q]) /\ Size([n |-> n, q |-> q]) = semis}
  IN IF c = {} THEN "?" ELSE CHOOSE q \in c : TRUE

----------------------------------------------------------------------------
(* Chord symbols (property C16): semitones above the root                   *)
ChordSymbols == {"", "m", "dim", "aug", "7", "M7", "maj7", "m7", "mM7", "m7b5", "dim7", "augM7",
                 "9", "m9", "M9", "maj9", "mM9", "sus4", "7sus4", "6", "m6", "add9", "sus2"}
\* display symbols as code points, from the TLA+ strings of Theory!ChordSymbols
SymChars == [s \in ChordSymbols |->
   CASE s = "" -> <<>> [] s = "m" -> <<109>> [] s = "dim" -> <<100,105,109>> [] s = "aug" -> <<97,117,103>> [] s = "7" -> <<55>>
     [] s = "M7" -> <<77,55>> [] s = "maj7" -> <<109,97,106,55>> [] s = "m7" -> <<109,55>> [] s = "mM7" -> <<109,77,55>>
     [] s = "m7b5" -> <<109,55,98,53>> [] s = "dim7" -> <<100,105,109,55>> [] s = "augM7" -> <<97,117,103,77,55>> [] s = "9" -> <<57>>
     [] s = "m9" -> <<109,57>> [] s = "M9" -> <<77,57>> [] s = "maj9" -> <<109,97,106,57>> [] s = "mM9" -> <<109,77,57>>
     [] s = "sus4" -> <<115,117,115,52>> [] s = "7sus4" -> <<55,115,117,115,52>> [] s = "6" -> <<54>> [] s = "m6" -> <<109,54>>
     [] s = "add9" -> <<97,100,100,57>> [] s = "sus2" -> <<115,117,115,50>>]
ChordTones(sym) ==
  CASE sym = ""      -> {0, 4, 7}
    [] sym = "m"     -> {0, 3, 7}
    [] sym = "dim"   -> {0, 3, 6}
    [] sym = "aug"   -> {0, 4, 8}
    [] sym = "7"     -> {0, 4, 7, 10}
    [] sym \in {"M7", "maj7"} -> {0, 4, 7, 11}
    [] sym = "m7"    -> {0, 3, 7, 10}
    [] sym = "mM7"   -> {0, 3, 7, 11}
    [] sym = "m7b5"  -> {0, 3, 6, 10}
    [] sym = "dim7"  -> {0, 3, 6, 9}
    [] sym = "augM7" -> {0, 4, 8, 11}
    [] sym = "9"     -> {0, 4, 7, 10, 14}
    [] sym = "m9"    -> {0, 3, 7, 10, 14}
    [] sym \in {"M9", "maj9"} -> {0, 4, 7, 11, 14}
    [] sym = "mM9"   -> {0, 3, 7, 11, 14}
    [] sym = "sus4"  -> {0, 5, 7}
    [] sym = "7sus4" -> {0, 5, 7, 10}
    [] sym = "6"     -> {0, 4, 7, 9}
    [] sym = "m6"    -> {0, 3, 7, 9}
    [] sym = "add9"  -> {0, 4, 7, 14}
    [] sym = "sus2"  -> {0, 2, 7}

----------------------------------------------------------------------------
(* Diatonic harmonisation: stack thirds on each scale degree                *)
ScalePitchUp(k, i, j) ==       \* semitones from scale degree i up to the degree j steps above it
  LET pat == StepPattern(k)
      RECURSIVE Up(_, _)
      Up(from, steps) == IF steps = 0 THEN 0 ELSE pat[((from - 1) % 7) + 1] + Up(from + 1, steps - 1)
  IN Up(i, j)
HarmoniseTones(k, i, depth) == {ScalePitchUp(k, i, 2 * t) : t \in 0..(depth - 1)}   \* depth 3 = triad, 4 = seventh
TriadSymbol(tones)   == CHOOSE s \in {"", "m", "dim", "aug"} : ChordTones(s) = tones
SeventhSymbol(tones) == CHOOSE s \in {"maj7", "m7", "7", "m7b5", "mM7", "dim7", "augM7"} : ChordTones(s) = tones
=============================================================================
