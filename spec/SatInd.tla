------------------------------- MODULE SatInd -------------------------------
(***************************************************************************)
(* The arithmetic lemma behind WriterSat.tla, for the REAL constants of the *)
(* code (uint32 words, W = 2^32; delta times up to Max = 2^28 - 1) and      *)
(* unbounded ideal values (Apalache; TLC checks WriterSat on small words).  *)
(* A machine value m stands for an ideal value d when it equals d as long   *)
(* as d <= Max and is above Max whenever d is.  One step adds an arbitrary   *)
(* clamped length to the pair (m, d) -- or folds two pairs that stand for    *)
(* their ideals into one -- with the saturating addition of midix.addTicks.  *)
(* Inductive: Stands is preserved, so after any number of additions the      *)
(* refusal test "m > Max" of Track.Validate decides exactly "d > Max".       *)
(***************************************************************************)
EXTENDS Integers
W == 4294967296
Max == 268435455
VARIABLES
  \* @type: Int;
  m,
  \* @type: Int;
  d,
  \* @type: Int;
  m2,
  \* @type: Int;
  d2

NewTicks(k) == IF k > Max THEN Max + 1 ELSE k
Plus(a, b) == IF a + b >= W THEN W - 1 ELSE a + b
Stands(x, y) == (y <= Max => x = y) /\ (y > Max => x > Max)
InWord(x) == x >= 0 /\ x < W

Init == m = 0 /\ d = 0 /\ m2 = 0 /\ d2 = 0
\* any state in which both pairs are words that stand for their (non-negative) ideals
IndInit == /\ m \in Int /\ d \in Int /\ m2 \in Int /\ d2 \in Int
           /\ InWord(m) /\ InWord(m2) /\ d >= 0 /\ d2 >= 0
           /\ Stands(m, d) /\ Stands(m2, d2)
\* Rest / Note length k added to the first pair (MIDIWriter.addTickDelta, newTicks)
AddLength == \E k \in Nat : m' = Plus(m, NewTicks(k)) /\ d' = d + k /\ UNCHANGED <<m2, d2>>
\* the second pair folded into the first (Track.Add, Track.AddTickDelta, Close), the second starts again from 0
Fold == m' = Plus(m, m2) /\ d' = d + d2 /\ m2' = 0 /\ d2' = 0
\* a length added to the second pair
AddLength2 == \E k \in Nat : m2' = Plus(m2, NewTicks(k)) /\ d2' = d2 + k /\ UNCHANGED <<m, d>>
Next == AddLength \/ AddLength2 \/ Fold

IndInv == /\ InWord(m) /\ InWord(m2) /\ d >= 0 /\ d2 >= 0
          /\ Stands(m, d) /\ Stands(m2, d2)
\* what Track.Validate relies on
RefusalExact == (m > Max) <=> (d > Max)
=============================================================================
