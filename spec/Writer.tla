------------------------------- MODULE Writer -------------------------------
(***************************************************************************)
(* The "how" layer of `crd write` (properties C02 C06 C07 C08): the MIDI   *)
(* writer's time bookkeeping as a state machine, one action per critical   *)
(* section of midix/write.go + midix/track.go.                              *)
(*                                                                          *)
(*  wpend     writer's pending delta: rest time not yet attached to an     *)
(*            event (MIDIWriter.tickDelta)                                  *)
(*  tpend[t]  per-track pending delay: ticks of the global clock not yet   *)
(*            materialised on track t (Track.tickDelta)                     *)
(*  ops[t]    the ops queued on track t: [d |-> delta, e |-> event]        *)
(*  closed    Close has run                                                 *)
(* ghost variables (not in the code):                                       *)
(*  now       the musical time: sum of all Note and Rest lengths so far    *)
(*  tl        the timeline the calls denote: bag of <<absolute tick, e>>    *)
(*                                                                          *)
(* Primitive: Add(t, d, e) = TrackSet.Add -- deliver to track t (folding   *)
(* its pending delay into the op), push d onto every other track.  The      *)
(* writer calls are compositions of Add: Meta = 1 Add on track 0, Note =    *)
(* 2k Adds, Close = one end-of-track per track.                             *)
(*                                                                          *)
(* Named deviations (NOT part of Next; used by WriterDev*.cfg to show that  *)
(* the invariants catch them): CloseSharedOp (one op record aliased over    *)
(* all tracks, the pinned tree's Distribute) and CloseDropsRest (Close      *)
(* ignores the pending delta).                                              *)
(***************************************************************************)
EXTENDS Integers, Sequences, FiniteSets
CONSTANT N                                    \* number of tracks
Tracks == 0..(N - 1)
Sel(j) == IF N = 1 THEN 0 ELSE (j % (N - 1)) + 1        \* track of the j-th key of a chord (meta events: track 0)

VARIABLES wpend, tpend, ops, closed, now, tl
vars == <<wpend, tpend, ops, closed, now, tl>>

St == [tp |-> tpend, op |-> ops]
\* TrackSet.Add
Add(st, t, d, e) == [tp |-> [u \in Tracks |-> IF u = t THEN 0 ELSE st.tp[u] + d],
                     op |-> [st.op EXCEPT ![t] = Append(@, [d |-> d + st.tp[t], e |-> e])]]
Set(st) == tpend' = st.tp /\ ops' = st.op

BagAdd(b, x) == IF x \in DOMAIN b THEN [b EXCEPT ![x] = @ + 1] ELSE [y \in DOMAIN b \cup {x} |-> IF y = x THEN 1 ELSE b[y]]
RECURSIVE BagAddAll(_, _)
BagAddAll(b, s) == IF s = <<>> THEN b ELSE BagAddAll(BagAdd(b, Head(s)), Tail(s))

Init == /\ wpend = 0 /\ tpend = [t \in Tracks |-> 0] /\ ops = [t \in Tracks |-> <<>>] /\ closed = FALSE
        /\ now = 0 /\ tl = [x \in {} |-> 0]

\* Tempo / Meter / Key / Text / Lyric / Marker: consume the pending delta, go to track 0
Meta(e) == /\ ~closed
           /\ Set(Add(St, 0, wpend, <<"meta", e>>))
           /\ wpend' = 0
           /\ tl' = BagAdd(tl, <<now, <<"meta", e>> >>)
           /\ UNCHANGED <<closed, now>>
Rest(k) == /\ ~closed /\ wpend' = wpend + k /\ now' = now + k /\ UNCHANGED <<tpend, ops, closed, tl>>
\* Note: note-ons (the first carries the pending delta), then note-offs (the first carries the length)
RECURSIVE AddKeys(_, _, _, _, _)
AddKeys(st, keys, j, first, kind) ==
  IF j > Len(keys) THEN st
  ELSE AddKeys(Add(st, Sel(j - 1), IF j = 1 THEN first ELSE 0, <<kind, keys[j]>>), keys, j + 1, first, kind)
Note(k, keys) ==
  /\ ~closed /\ keys # <<>>
  /\ Set(AddKeys(AddKeys(St, keys, 1, wpend, "on"), keys, 1, k, "off"))
  /\ wpend' = 0 /\ now' = now + k
  /\ tl' = BagAddAll(BagAddAll(tl, [j \in 1..Len(keys) |-> <<now, <<"on", keys[j]>> >>]),
                     [j \in 1..Len(keys) |-> <<now + k, <<"off", keys[j]>> >>])
  /\ UNCHANGED closed
\* Close: an end-of-track on every track, all tracks advance together by the pending delta
Close == /\ ~closed
         /\ ops' = [t \in Tracks |-> Append(ops[t], [d |-> wpend + tpend[t], e |-> <<"eot">>])]
         /\ tpend' = [t \in Tracks |-> 0] /\ wpend' = 0 /\ closed' = TRUE
         /\ UNCHANGED <<now, tl>>

\* ---- named deviations (what the pinned tree did)
RECURSIVE SharedFold(_, _, _)
SharedFold(st, t, d) ==        \* the same op record added to track t, t+1, ...: its delta accumulates
  IF t > N - 1 THEN st
  ELSE LET dd == d + st.tp[t] IN
       SharedFold([tp |-> [u \in Tracks |-> IF u = t THEN 0 ELSE st.tp[u] + dd],
                   op |-> [st.op EXCEPT ![t] = Append(@, [d |-> dd, e |-> <<"eot">>])]], t + 1, dd)
CloseSharedOp == /\ ~closed /\ Set(SharedFold(St, 0, wpend)) /\ wpend' = 0 /\ closed' = TRUE /\ UNCHANGED <<now, tl>>
CloseDropsRest == /\ ~closed
                  /\ ops' = [t \in Tracks |-> Append(ops[t], [d |-> tpend[t], e |-> <<"eot">>])]
                  /\ tpend' = [t \in Tracks |-> 0] /\ wpend' = wpend /\ closed' = TRUE /\ UNCHANGED <<now, tl>>

\* ---- properties
RECURSIVE SumD(_)
SumD(s) == IF s = <<>> THEN 0 ELSE Head(s).d + SumD(Tail(s))
\* every track's clock (materialised + pending) equals the global clock (musical time minus what the writer still holds)
ClockInv == ~closed => \A t \in Tracks : SumD(ops[t]) + tpend[t] = now - wpend
\* every track ends when the piece ends, and the end-of-track is last
EOTInv == closed => \A t \in Tracks : /\ SumD(ops[t]) = now
                                      /\ ops[t][Len(ops[t])].e = <<"eot">>
                                      /\ \A i \in 1..(Len(ops[t]) - 1) : ops[t][i].e # <<"eot">>
\* the merged tracks are the timeline the calls denote, whatever N is (refinement of the what-layer)
AbsOf(s) == LET RECURSIVE F(_, _)  F(i, acc) == IF i > Len(s) THEN <<>> ELSE <<<<acc + s[i].d, s[i].e>>>> \o F(i + 1, acc + s[i].d) IN F(1, 0)
RECURSIVE MergeFrom(_, _)
MergeFrom(t, b) == IF t > N - 1 THEN b
                   ELSE MergeFrom(t + 1, BagAddAll(b, SelectSeq(AbsOf(ops[t]), LAMBDA x : x[2] # <<"eot">>)))
Merged == MergeFrom(0, [x \in {} |-> 0])
Refines == Merged = tl
\* metas only on track 0; a key's on and off on the same track, on before off
MetaOnTrack0 == \A t \in Tracks \ {0} : \A i \in 1..Len(ops[t]) : ops[t][i].e[1] # "meta"
=============================================================================
