SPECIFICATION Spec
INVARIANTS DriverClaimC05 C05Inv SylInv
CHECK_DEADLOCK FALSE
