SPECIFICATION Spec
INVARIANTS DriverClaimC05 C05Inv SylInv SectionsInv
CHECK_DEADLOCK FALSE
