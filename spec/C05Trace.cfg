SPECIFICATION Spec
INVARIANTS DriverClaimC05 C05Inv
CHECK_DEADLOCK FALSE
