SPECIFICATION TSpec
INVARIANTS Conforms Complete Velocities RefinesMeaning
CHECK_DEADLOCK TRUE
