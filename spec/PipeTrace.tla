----------------------------- MODULE PipeTrace -----------------------------
(***************************************************************************)
(* C10 -- instances YAML is a faithful interchange format between the      *)
(* stages.  The YAML hop is the identity on abstract instances:            *)
(*   pipe:   text --(real text conv)--> YAML --(real write)--> SMF         *)
(*           what write played = Piece(Conv(text)), i.e. the events must   *)
(*           satisfy C01/C02/C07 for the document Conv.tla computes from   *)
(*           the text;                                                      *)
(*   scalar: every value of every scalar field, printed into a document,   *)
(*           read by the real write parse and printed again, is the same   *)
(*           value;                                                         *)
(*   cmt:    write conv -c cmt | write = write of the original, plus one   *)
(*           text event per chord.                                          *)
(***************************************************************************)
EXTENDS WriteProps, Conv, Lexer, ChordLang, Dict, Json, TLC
Recs == ndJsonDeserialize("records.ndjson")
VARIABLE l
Init == l \in 1..Len(Recs)
Next == UNCHANGED l
Spec == Init /\ [][Next]_l
R == Recs[l]
KeyCmaj == [l |-> 0, a |-> 0, minor |-> FALSE]

Utf8(c) == IF c < 128 THEN << c >>
           ELSE IF c < 2048 THEN << 192 + (c \div 64), 128 + (c % 64) >>
           ELSE IF c < 65536 THEN << 224 + (c \div 4096), 128 + ((c \div 64) % 64), 128 + (c % 64) >>
           ELSE << 240 + (c \div 262144), 128 + ((c \div 4096) % 64), 128 + ((c \div 64) % 64), 128 + (c % 64) >>
RECURSIVE Utf8Seq(_)
Utf8Seq(s) == IF s = <<>> THEN <<>> ELSE Utf8(Head(s)) \o Utf8Seq(Tail(s))
MetaVal(metaset, key) == IF \E p \in metaset : p[1] = key THEN (CHOOSE p \in metaset : p[1] = key)[2] ELSE <<>>
DynString(v) == CASE v = <<112, 112>> -> "pp" [] v = <<112>> -> "p" [] v = <<109, 112>> -> "mp" [] v = <<109, 102>> -> "mf"
                  [] v = <<102>> -> "f" [] v = <<102, 102>> -> "ff" [] OTHER -> ""
SymString(chs) == IF BuiltinDisplay(chs) # {} THEN CHOOSE s \in BuiltinDisplay(chs) : TRUE ELSE "?"
\* the instances document that Conv's output denotes, in Piece's vocabulary
DocOf(out) == [i \in 1..Len(out) |->
   [rest |-> out[i].rest, deg |-> PrintInterval(out[i].deg),
    base |-> IF out[i].hasBase THEN PrintInterval(out[i].base) ELSE <<>>,
    sym |-> SymString(out[i].sym), vals |-> out[i].vals, bpm |-> out[i].bpm, meter |-> out[i].meter,
    vel |-> DynString(out[i].vel), key |-> IF out[i].hasKey THEN PrintKey(out[i].key) ELSE <<>>,
    txt |-> Utf8Seq(MetaVal(out[i].meta, kTXT)), lic |-> Utf8Seq(MetaVal(out[i].meta, kLIC)), mrk |-> Utf8Seq(MetaVal(out[i].meta, kMRK))]]
\* Whether the blanks at either end of a text written in the chord notation (`{txt= x }`) belong to the text is the
\* lexer's business and no property's: the pipe is judged with such blanks taken off on both sides (ASCII blanks only --
\* the payload is bytes)
AsciiBlank == {9, 10, 11, 12, 13, 32}
RECURSIVE TrimAL(_)
TrimAL(s) == IF s # <<>> /\ s[1] \in AsciiBlank THEN TrimAL(Tail(s)) ELSE s
RECURSIVE TrimAR(_)
TrimAR(s) == IF s # <<>> /\ s[Len(s)] \in AsciiBlank THEN TrimAR(SubSeq(s, 1, Len(s) - 1)) ELSE s
TrimA(s) == TrimAL(TrimAR(s))
TrimDoc(d) == [i \in 1..Len(d) |-> [d[i] EXCEPT !.txt = TrimA(@), !.lic = TrimA(@), !.mrk = TrimA(@)]]
TrimEv(ev) == [j \in 1..Len(ev) |-> IF ev[j][4] = 255 /\ ev[j][6] \in {1, 5, 6} THEN [ev[j] EXCEPT ![8] = TrimA(@)] ELSE ev[j]]
NoFlags == [bpm |-> 0, meter |-> <<>>, vel |-> "", key |-> <<>>]

ExpectedConv(s, mode, keyflag) ==
  LET lx == Lex(s) IN
  IF lx.err THEN [ok |-> FALSE, may |-> FALSE, out |-> <<>>]
  ELSE LET p == Parse(lx.toks) IN
       IF ~p.ok THEN [ok |-> FALSE, may |-> FALSE, out |-> <<>>]
       ELSE ConvertPiece(p.items, mode, IF keyflag = <<>> THEN KeyCmaj ELSE ParseKey(keyflag).k)

\* the generated text is valid and uses dictionary symbols only
DriverClaimPipe == R.kind = "pipe" =>
   LET e == ExpectedConv(R.s, R.mode, R.keyflag) IN
   e.ok /\ \A i \in 1..Len(e.out) : e.out[i].rest \/ SymString(e.out[i].sym) # "?"
PipeInv == R.kind = "pipe" =>
   LET e == ExpectedConv(R.s, R.mode, R.keyflag)
       w == [doc |-> TrimDoc(DocOf(e.out)), flags |-> NoFlags, tracks |-> 1, ntracks |-> R.ntracks, ok |-> R.writeOk, ok1 |-> TRUE,
             division |-> R.division, ev |-> TrimEv(R.ev), ev1 |-> <<>>]
   IN /\ (R.convOk \/ e.may)                    \* (a note outside the key may be refused by text conv: C03)
      /\ (R.convOk => /\ R.writeOk              \* everything text conv prints is accepted by write
                       /\ C01Ok(w) /\ C02Written(w) /\ C07Written(w))     \* and means the chords, durations, settings and texts that were written

\* ------------------------------------------------------------------ scalar fields through write parse
SameValue(field, a, b) ==
  CASE field \in {"degree", "base"} -> LET x == ParseInterval(a)  y == ParseInterval(b) IN x.ok /\ y.ok /\ x.iv = y.iv
    [] field = "key" -> LET x == ParseKey(a)  y == ParseKey(b) IN x.ok /\ y.ok /\ x.k = y.k
    [] field \in {"value", "meter"} -> LET x == ParseRat(a)  y == ParseRat(b) IN x.ok /\ y.ok /\ x.r = y.r
    [] field = "velocity" -> a = b /\ a \in Dynamics
    [] field = "bpm" -> AllDigits(a) /\ AllDigits(b) /\ NatOfDigits(a) = NatOfDigits(b)
    [] OTHER -> FALSE
ScalarInv == R.kind = "scalar" =>
   /\ R.ok /\ Len(R.outs) = Len(R.ins)
   /\ \A i \in 1..Len(R.ins) : SameValue(R.field, R.ins[i], R.outs[i])

\* ------------------------------------------------------------------ write conv -c cmt | write
NonText(ev) == LET s == SelectSeq2(ev, LAMBDA e : ~(e[4] = 255 /\ e[6] = mTEXT)) IN [j \in 1..Len(s) |-> <<s[j][1]>> \o Strip(s[j])]   \* track + absolute tick, no deltas
Texts(ev) == SelectSeq2(ev, LAMBDA e : e[4] = 255 /\ e[6] = mTEXT)
CmtInv == R.kind = "cmt" =>
   /\ R.ok /\ R.convOk /\ R.ok2                                 \* write conv output is accepted by write
   /\ NonText(R.ev2) = NonText(R.ev)                            \* and plays the same music
                                                               \* (what text `cmt` adds is its own business)
\* a long piece (its YAML is larger than a mebibyte) goes through the pipe whole: 4 keys per C triad, one beat each
BigPipeInv == R.kind = "bigpipe" =>
   /\ R.convOk /\ R.writeOk /\ R.ons = 4 * R.n /\ R.eot = R.division * R.n      \* (T is whatever the header declares)
\* free texts: a text (txt and lic on a rest, mrk on a chord) written in the instances YAML reaches the file's text, lyric and
\* marker events byte for byte, directly and through `write conv -c cmt | write` (which adds one text event for the chord)
TextRtInv == R.kind = "textrt" =>
   LET want == {<<1>> \o R.text, <<5>> \o R.text, <<6>> \o R.text}
       set(s) == {s[i] : i \in 1..Len(s)}
       own(s) == SelectSeq(s, LAMBDA e : e[1] # 1 \/ e = <<1>> \o R.text)      \* (drop the chord-name text cmt added)
   IN /\ R.directOk /\ R.parseOk /\ R.convOk /\ R.viaConvOk
      /\ set(R.direct) = want /\ Len(R.direct) = 3                 \* (in whatever order the events of one tick are written)
      /\ set(own(R.viaConv)) = want /\ Len(own(R.viaConv)) = 3
\* the same through `text conv | write`: a setting text written in the chord text (it ends at `,` or `}`; blanks and line
\* breaks inside and at its end belong to it) is the payload of the one text / lyric / marker event
TextTcInv == R.kind = "texttc" =>
   /\ R.convOk /\ R.writeOk
   \* what `text conv` printed as the text (blanks around it may or may not belong to it) is what `write` puts in the event
   /\ Trim(R.yamlText) = Trim(R.text)
   /\ R.payloads = << <<(CASE R.mkey = "txt" -> 1 [] R.mkey = "lic" -> 5 [] OTHER -> 6)>> \o R.yamlText >>
\* one line of the instances YAML longer than any line buffer (a long text, a long comment): nothing is cut; four
\* triads with their bass, one beat each, and the text whole
BigLineInv == R.kind = "bigline" =>
   /\ R.convOk /\ R.writeOk /\ R.ons = 16 /\ R.eot = 4 * R.division
   /\ R.texts = (IF R.how = "text" THEN <<R.n>> ELSE <<>>)
=============================================================================
