CONSTANTS N = 4
 L = 9
SPECIFICATION Spec
INVARIANT Agree
CHECK_DEADLOCK FALSE
