------------------------------ MODULE IterTrace ------------------------------
(* Conformance of the real ast.IterVisitor.All with the properties IterVisitor.tla proves of the model:
   the loop body sees the nodes in document order, exactly up to the one it stops at (all of them if it never
   stops) -- also when the tree has more nodes than the channel holds -- and no producer goroutine is left
   behind. The expected node sequence is derived by the spec from the text (Lexer o ChordLang). *)
EXTENDS Lexer, ChordLang, Json, TLC
Recs == ndJsonDeserialize("records.ndjson")
VARIABLE l
Init == l \in 1..Len(Recs)
Next == UNCHANGED l
Spec == Init /\ [][Next]_l
R == Recs[l]
Rep(n, x) == [i \in 1..n |-> x]
DegreeNodes == <<"ChordDegree">>
ItemNodes(it) ==
  (IF it.rest THEN <<"Rest">>
   ELSE <<"Chord">> \o DegreeNodes \o (IF it.hasSym THEN <<"ChordSymbol">> ELSE <<>>)
        \o (IF it.hasBase THEN <<"ChordBase">> \o DegreeNodes ELSE <<>>))
  \o <<"ChordValues">> \o Rep(Len(it.vals), "ChordValue")
  \o (IF it.meta # <<>> THEN <<"ChordMeta">> \o Rep(Len(it.meta), "ChordMetadata") ELSE <<>>)
RECURSIVE Flat(_, _)
Flat(items, i) == IF i > Len(items) THEN <<>> ELSE ItemNodes(items[i]) \o Flat(items, i + 1)
Nodes(s) == <<"ChordList">> \o Flat(Parse(Lex(s).toks).items, 1)
Inv == R.kind = "iter" =>
         LET all == Nodes(R.s)
             want == IF R.stopAt \in 1..Len(all) THEN SubSeq(all, 1, R.stopAt) ELSE all IN
         /\ R.got = want           \* document order, exact prefix, nothing skipped once the channel is full
         /\ ~R.leaked              \* the producer has terminated when the iterator returns
=============================================================================
