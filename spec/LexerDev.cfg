CONSTANT K = 2
SPECIFICATION DevSpec
PROPERTY Terminates
CHECK_DEADLOCK FALSE
