CONSTANT N = 1
SPECIFICATION TSpec
INVARIANT ObservedTimeline
CHECK_DEADLOCK TRUE
