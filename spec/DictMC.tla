------------------------------- MODULE DictMC -------------------------------
(* Dict.tla explored on its own: every user dictionary of up to two chord entries over a small vocabulary
   (fresh names A/B with displays a/b, an override of the built-in "m", extends none / each other / a built-in by
   name or by display / dangling, attributes none / built-in / user / dangling).  Theorems of the what-layer:
   an accepted dictionary resolves every entry (the fuel never runs out), by name and by display alike; a
   dictionary is refused iff it has an unnamed entry, a dangling reference, or an extends chain that returns
   to a chord already visited. *)
EXTENDS Dict, TLC
cA == <<65>>  ca == <<97>>  cB == <<66>>  cb == <<98>>  cm == <<109>>  cGhost == <<71, 104>>
MinorTriadName == <<77, 105, 110, 111, 114, 84, 114, 105, 97, 100>>
Major3 == <<77, 97, 106, 111, 114, 51>>
XA == <<88, 65>>
BN == (MinorTriadName :> "m")
UAttrs == << [name |-> XA, degree |-> <<98, 50>>] >>
Entries == {[name |-> n[1], display |-> n[2], attrs |-> a, extends |-> e] :
              n \in {<<cA, ca>>, <<cB, cb>>, <<MinorTriadName, cm>>, <<<<>>, ca>>},
              a \in {<<>>, <<Major3>>, <<XA, Major3>>, <<cGhost>>},
              e \in {<<>>, cA, cB, ca, cm, MinorTriadName, cGhost}}
VARIABLE d
Init == d \in {<<x>> : x \in Entries} \cup {<<x, y>> : x \in Entries, y \in {z \in Entries : z.name \in {cA, cB}}}
Next == UNCHANGED d
Spec == Init /\ [][Next]_d
Acc == Accept(UAttrs, d, BN)
Fuel == Len(d) + 1
\* accepted => every entry resolves, and name and display are interchangeable (when the display is not taken by a later entry)
ResolvesAll == Acc => \A i \in 1..Len(d) :
                 /\ Resolve(UAttrs, d, BN, d[i].name, Fuel).ok
                 /\ (UserIdx(d, d[i].display) = UserIdx(d, d[i].name)
                       => Resolve(UAttrs, d, BN, d[i].display, Fuel).bag = Resolve(UAttrs, d, BN, d[i].name, Fuel).bag)
\* the extends relation as a graph on entry indices; a cycle = some entry reaches itself
Parent(i) == IF d[i].extends = <<>> THEN 0 ELSE UserIdx(d, d[i].extends)
Reach(i, j, k) == LET RECURSIVE R(_, _)  R(x, n) == IF n = 0 \/ x = 0 THEN FALSE ELSE (Parent(x) = j \/ R(Parent(x), n - 1)) IN R(i, k)
HasCycle == \E i \in 1..Len(d) : \E j \in 1..Len(d) : (i = j \/ Reach(i, j, Len(d))) /\ Reach(j, j, Len(d))
RefusedIff == Acc <=> /\ Named(UAttrs, d) /\ NoDanglingAttr(UAttrs, d) /\ NoDanglingExtends(d, BN)
                      /\ ~HasCycle
=============================================================================
