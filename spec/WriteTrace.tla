----------------------------- MODULE WriteTrace -----------------------------
(***************************************************************************)
(* Trace validation of `crd write` (properties C01 C02 C06 C07): one state *)
(* per observed run of the real binary.  A record carries the abstract     *)
(* document and flags the driver rendered, and the events decoded from the *)
(* SMF bytes the binary produced.  The invariants are the "what"-layer      *)
(* equations of Piece.tla evaluated on that observation; which of them is  *)
(* checked is chosen by the .cfg (one per property, so that a check tests  *)
(* only what its property states).                                          *)
(***************************************************************************)
EXTENDS WriteProps, Json, TLC
Recs == ndJsonDeserialize("records.ndjson")
VARIABLE l
Init == l \in 1..Len(Recs)
Next == UNCHANGED l
Spec == Init /\ [][Next]_l
R == Recs[l]
Applies == R.kind = "write"

C01Inv == Applies => C01Ok(R)
C02Inv == Applies => C02Ok(R)
C06Inv == Applies => C06Ok(R)
C07Inv == Applies => C07Ok(R)
\* a duration of 10^6 beats or more (7+ digits) is about 10^9 ticks: no delta time can hold it, whatever follows
\* (the numbers themselves are beyond TLC's integers, so the record carries the digits)
AbsurdInv == R.kind = "absurd" => /\ Len(R.digits) >= 7 /\ R.digits[1] \in 49..57 /\ \A i \in 1..Len(R.digits) : R.digits[i] \in 48..57
                                  \* (4,473,924 beats, the least of them, are 2^28 ticks at 60.00001 ticks per beat: with the 61 or more
                                  \* ticks per quarter note that this binary declares nothing can hold it; at a coarser resolution nothing is claimed)
                                  /\ (R.refDivision >= 61 => R.refused)
=============================================================================
