------------------------------- MODULE Circle -------------------------------
(***************************************************************************)
(* Circle of fifths (property C14).                                         *)
(*  what: a key class is (tonic pitch class, mode); dominant +7, sub-       *)
(*        dominant -7, relative +-3 with a mode switch, parallel = mode     *)
(*        switch; the answer lists every supported spelling.                *)
(*  how : crd's mechanism -- two rings of 12 members listed in fifths      *)
(*        order and index-aligned as relatives; a conversion is "find the  *)
(*        member holding the key, move the index by +-1 / +-3 / 0 on the   *)
(*        same or the other ring"; a chain threads the *member set* and    *)
(*        may read it by any of its spellings.                              *)
(***************************************************************************)
EXTENDS Theory
Convs == {"p", "r", "d", "s"}
\* ------------------------------------------------------------------ what
KeyPc(k) == (LetterPc[k.l + 1] + k.a) % 12
AbsOf(k) == [pc |-> KeyPc(k), minor |-> k.minor]
AbsStates == [pc : 0..11, minor : BOOLEAN]
AD(s) == [s EXCEPT !.pc = (@ + 7) % 12]
AS(s) == [s EXCEPT !.pc = (@ + 5) % 12]
AR(s) == [pc |-> (s.pc + (IF s.minor THEN 3 ELSE 9)) % 12, minor |-> ~s.minor]
AP(s) == [s EXCEPT !.minor = ~@]
AbsStep(c, s) == CASE c = "d" -> AD(s) [] c = "s" -> AS(s) [] c = "r" -> AR(s) [] c = "p" -> AP(s)
Spellings(s) == {k \in SupportedKeys : KeyPc(k) = s.pc /\ k.minor = s.minor}
RECURSIVE Fold(_, _)
Fold(chain, s) == IF chain = <<>> THEN s ELSE Fold(Tail(chain), AbsStep(Head(chain), s))
RECURSIVE Iter(_, _, _)
Iter(c, n, s) == IF n = 0 THEN s ELSE Iter(c, n - 1, AbsStep(c, s))
Laws == \A s \in AbsStates :
          /\ AD(AS(s)) = s /\ AS(AD(s)) = s
          /\ AR(AR(s)) = s /\ AP(AP(s)) = s
          /\ Iter("d", 12, s) = s /\ Iter("s", 12, s) = s
          /\ Spellings(s) # {}                                  \* every chain succeeds
          /\ Signature(CHOOSE k \in Spellings(AR(s)) : TRUE) % 12 = Signature(CHOOSE k \in Spellings(s) : TRUE) % 12
\* ------------------------------------------------------------------- how
K(l, a, m) == [l |-> l, a |-> a, minor |-> m]
MajorRing == << {K(0,0,FALSE)}, {K(4,0,FALSE)}, {K(1,0,FALSE)}, {K(5,0,FALSE)}, {K(2,0,FALSE)},
                {K(6,0,FALSE), K(0,-1,FALSE)}, {K(4,-1,FALSE), K(3,1,FALSE)}, {K(1,-1,FALSE), K(0,1,FALSE)},
                {K(5,-1,FALSE)}, {K(2,-1,FALSE)}, {K(6,-1,FALSE)}, {K(3,0,FALSE)} >>
MinorRing == << {K(5,0,TRUE)}, {K(2,0,TRUE)}, {K(6,0,TRUE)}, {K(3,1,TRUE)}, {K(0,1,TRUE)}, {K(4,1,TRUE)},
                {K(2,-1,TRUE), K(1,1,TRUE)}, {K(6,-1,TRUE)}, {K(3,0,TRUE)}, {K(0,0,TRUE)}, {K(4,0,TRUE)}, {K(1,0,TRUE)} >>
RingOf(minor) == IF minor THEN MinorRing ELSE MajorRing
At(ring, i) == ring[(i % 12) + 1]                      \* 0-based, wraps negative and large indices
IndexOf(ring, k) == CHOOSE i \in 0..11 : k \in ring[i + 1]
Find(k, toMinor, delta) == At(RingOf(toMinor), IndexOf(RingOf(k.minor), k) + delta)
HowStep(c, k) == CASE c = "p" -> Find(k, ~k.minor, IF k.minor THEN 3 ELSE -3)
                   [] c = "r" -> Find(k, ~k.minor, 0)
                   [] c = "d" -> Find(k, k.minor, 1)
                   [] c = "s" -> Find(k, k.minor, -1)
=============================================================================
