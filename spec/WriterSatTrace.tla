-------------------------- MODULE WriterSatTrace --------------------------
(***************************************************************************)
(* Trace validation of the real midix writer against WriterSat.tla: call    *)
(* sequences made in-process with lengths that are multiples of 2^26 ticks, *)
(* so that the limit of the file format is Max + 1 = 4 units and a uint32   *)
(* word holds W = 64 units; the state read through the verif hooks after    *)
(* every call is recorded in those units (a saturated word as W - 1).  Each *)
(* step applies the model action named by the event and requires the        *)
(* model's machine state to be the logged one; Faithful / WrittenRight /     *)
(* RefusedRight are then evaluated on states the real code went through.    *)
(***************************************************************************)
EXTENDS WriterSat, Json
Recs == ndJsonDeserialize("records.ndjson")
VARIABLES l, j, err
tvars == <<wpend, tpend, ops, closed, now, tl, mw, mtp, mop, calls, outcome, l, j, err>>
Evs == Recs[l].events
TInit == SInit /\ l \in 1..Len(Recs) /\ j = 0 /\ err = ""
Logged(e) == /\ mw' = e.mw
             /\ mtp' = [t \in Tracks |-> e.mtp[t + 1]]
             /\ [t \in 1..N |-> mop'[t - 1]] = e.mop
             /\ (e.op = "write" => outcome' = e.outcome)
Step == /\ Recs[l].kind = "sattrace" /\ Recs[l].n = N /\ j < Len(Evs)
        /\ LET e == Evs[j + 1] IN
           /\ CASE e.op = "meta"  -> SMeta /\ UNCHANGED outcome
                [] e.op = "rest"  -> SRest(e.k) /\ UNCHANGED outcome
                [] e.op = "note"  -> SNote(e.k, e.n) /\ UNCHANGED outcome
                [] e.op = "close" -> SClose /\ UNCHANGED outcome
                [] e.op = "write" -> SWrite
           /\ err' = IF err # "" THEN err
                      ELSE IF Logged(e) THEN "" ELSE "the real writer's machine state differs from the model's after this call"
        /\ j' = j + 1 /\ l' = l /\ calls' = calls
Done == (j = Len(Evs) \/ Recs[l].kind # "sattrace") /\ UNCHANGED tvars
TNext == Step \/ Done
TSpec == TInit /\ [][TNext]_tvars
\* everything recorded was a whole number of units (or a saturated word): otherwise the real writer keeps its books in
\* some other way than the model -- mechanism drift, like any other step-level difference
Conforms == err = "" /\ (Recs[l].kind = "sattrace" => Recs[l].exact)
\* WHAT-level, from the call arguments and the observed outcome only (no queue, no track distribution): a piece that fits
\* one delta time is written; a refused piece is longer than that
ObservedOutcome == (Recs[l].kind = "sattrace" /\ j = Len(Evs)) =>
                     LET o == Evs[Len(Evs)].outcome IN
                     /\ (now <= Max => o = "written")
                     /\ (o = "refused" => now > Max)
\* ... and when it is written, the bytes (decoded by the strict reader, ticks in units) are the timeline the calls denote:
\* every tick a whole number of units, the merged tracks = tl, every track's end-of-track at the end of the piece
ObsBag(t) == LET f == Recs[l].final[t + 1]
                 g == SelectSeq(f, LAMBDA x : x[2] # "eot")
             IN [i \in 1..Len(g) |-> <<g[i][1], IF g[i][2] = "meta" THEN <<"meta">> ELSE <<g[i][2], g[i][3]>> >>]
RECURSIVE ObsMerge(_, _)
ObsMerge(t, b) == IF t > N - 1 THEN b ELSE ObsMerge(t + 1, BagAddAll(b, ObsBag(t)))
TlKinds == LET S == DOMAIN tl IN [x \in {<<y[1], IF y[2][1] = "meta" THEN <<"meta">> ELSE y[2]>> : y \in S} |->
              LET M == {y \in S : <<y[1], IF y[2][1] = "meta" THEN <<"meta">> ELSE y[2]>> = x}
                  RECURSIVE Sum(_)  Sum(Q) == IF Q = {} THEN 0 ELSE LET q == CHOOSE z \in Q : TRUE IN tl[q] + Sum(Q \ {q})
              IN Sum(M)]
ObservedTimelineSat == (Recs[l].kind = "sattrace" /\ j = Len(Evs) /\ Evs[Len(Evs)].outcome = "written") =>
   /\ Recs[l].parsed /\ Recs[l].finalExact
   \* notes exactly; meta events: those the calls denote, plus whatever else the writer puts at tick 0 on its own account
   \* (track name, instrument, program ... -- no property counts those)
   /\ LET obs == ObsMerge(0, [x \in {} |-> 0])  want == TlKinds
          cnt(b, x) == IF x \in DOMAIN b THEN b[x] ELSE 0 IN
      /\ \A x \in DOMAIN want \cup DOMAIN obs :
            IF x[2] = <<"meta">> /\ x[1] = 0 THEN cnt(obs, x) >= cnt(want, x) ELSE cnt(obs, x) = cnt(want, x)
   /\ \A t \in Tracks : LET f == Recs[l].final[t + 1] IN f # <<>> /\ f[Len(f)][2] = "eot" /\ f[Len(f)][1] = now
=============================================================================
