------------------------------ MODULE C09Trace ------------------------------
(* C09 -- no input crashes or hangs crd; failures are signalled; nonsense is refused. One state per run of the
   real binary (matrix cells and seeded byte-level exploration alike). *)
EXTENDS Runs, Json, TLC
Recs == ndJsonDeserialize("records.ndjson")
VARIABLE l
Init == l \in 1..Len(Recs)
Next == UNCHANGED l
Spec == Init /\ [][Next]_l
R == Recs[l]
ProtocolInv == R.kind = "run" => Protocol(R)
RefusedInv == R.kind = "run" => Refused(R) /\ NoOverride(R)
\* the driver's matrix covers every live cell of Runs!LiveCells (checked on the unsharded matrix file)
CoverageInv == R.kind = "matrix" =>
                 \A c \in LiveCells : \E i \in 1..Len(R.cells) : R.cells[i] = c
=============================================================================
