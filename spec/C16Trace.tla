------------------------------ MODULE C16Trace ------------------------------
(* C16 -- the chord dictionary means what chord symbols mean, and is safely extensible. One state per
   observation of the real binary; Dict.tla / Theory.tla judge. *)
EXTENDS Dict, Json, TLC
Recs == ndJsonDeserialize("records.ndjson")
VARIABLE l
Init == l \in 1..Len(Recs)
Next == UNCHANGED l
Spec == Init /\ [][Next]_l
R == Recs[l]
NoDup(s) == \A i, j \in 1..Len(s) : i # j => s[i] # s[j]

\* sounded keys of a one-chord document (degree 1, key C): bass 48 + 60 + each tone
ExpectedOns(bag) == BagPlus([x \in {60 + t : t \in DOMAIN bag} |-> bag[x - 60]], [x \in {48} |-> 1])

AttrListOk ==
  /\ R.ok /\ Len(R.list) > 0
  /\ Len(R.list) = Len(R.gen)                         \* the embedded list is what `gen attr` generates
  /\ {<<R.list[i].name, R.list[i].degree>> : i \in 1..Len(R.list)} = {<<R.gen[i].name, R.gen[i].degree>> : i \in 1..Len(R.gen)}
  /\ NoDup([i \in 1..Len(R.list) |-> R.list[i].name])
  /\ \A i \in 1..Len(R.list) :                        \* every name denotes the interval its English name says
        LET e == EnglishInterval(R.list[i].name)  p == ParseInterval(R.list[i].degree) IN
        \* (a name that is not a quality word and a number says nothing the spec could hold it to)
        e.ok => p.ok /\ ValidInterval(e.iv) /\ p.iv = e.iv
  \* (which intervals have a built-in name at all is not stated: the chords that need one fail to load without it)

\* ... and denotes it where it matters: a chord made of the unison and that attribute sounds the bass, the root and the
\* root plus the interval's size (all names in one piece, one chord each)
AttrUseOk ==
  /\ R.ok /\ Len(R.ons) = Len(R.names)
  /\ \A i \in 1..Len(R.names) : LET e == EnglishInterval(R.names[i]) IN
        \* (names the spec cannot read claim nothing; whether a diminished unison exists is a don't-care, as in C15)
        (e.ok /\ Size(e.iv) >= 0) => Range(R.ons[i]) = {48, 60, 60 + Size(e.iv)}

ChordListOk ==
  /\ R.ok /\ NoDup([i \in 1..Len(R.chords) |-> R.chords[i].name])
  /\ \A i \in 1..Len(R.chords) : R.chords[i].name # <<>>
  /\ \A s \in ChordSymbols : \E i \in 1..Len(R.chords) : R.chords[i].display = SymChars[s]

\* A tone the definition names more than once (its own attribute repeated, or named again by a descendant): the statement
\* counts tones, not mentions -- sounded once or once per mention, both are "the chord's notes"
Sounds(obs, want) == DOMAIN obs = DOMAIN want /\ \A x \in DOMAIN obs : obs[x] >= 1 /\ obs[x] <= want[x]

BuiltinOk ==      \* name and display interchangeable; both resolve to the conventional tones
  LET ds == BuiltinDisplay(R.display) IN
  /\ R.okName /\ R.okDisplay
  /\ BagOfSeqD(R.onsName) = BagOfSeqD(R.onsDisplay)
  \* (a built-in outside the statement's table has no conventional tones to be held to; that every symbol of the table IS
  \* a built-in is ChordListOk's business)
  /\ ds # {} => LET want == ExpectedOns(BagOfSet(ChordTones(CHOOSE s \in ds : TRUE))) IN
                BagOfSeqD(R.onsName) = want

BNames == [k \in {R.bnames[i].name : i \in 1..Len(R.bnames)} |->
             (CHOOSE i \in 1..Len(R.bnames) : R.bnames[i].name = k) ]
UserDictOk ==
  LET bn == [k \in {R.bnames[i].name : i \in 1..Len(R.bnames)} |-> R.bnames[CHOOSE i \in 1..Len(R.bnames) : R.bnames[i].name = k].display]
      acc == Accept(R.uattrs, R.uchords, bn)
  IN /\ (acc => /\ R.seqOk /\ Len(R.seqOns) = Len(R.seqKeys)      \* several chords in one run: each as if alone
                 /\ \A q \in 1..Len(R.seqKeys) :
                       Sounds(BagOfSeqD(R.seqOns[q]), ExpectedOns(ResolveTop(R.uattrs, R.uchords, bn, R.seqKeys[q], Len(R.uchords) + 1).bag)))
     /\ (~acc => ~R.seqOk)
     /\ \A u \in 1..Len(R.uses) : LET x == R.uses[u] IN
       /\ x.terminated
       /\ IF acc
          THEN /\ x.ok                                             \* usable like a built-in
               /\ Sounds(BagOfSeqD(x.ons), ExpectedOns(ResolveTop(R.uattrs, R.uchords, bn, x.key, Len(R.uchords) + 1).bag))
          ELSE /\ ~x.ok /\ x.stdoutLen = 0 /\ x.stderrLen > 0      \* rejected
               /\ ~x.panic /\ x.exit > 0                           \* ... with an error, not a crash

\* a dictionary is accepted or rejected as a whole: also by commands that need no chord from it
IdleOk ==
  LET bn == [k \in {R.bnames[i].name : i \in 1..Len(R.bnames)} |-> R.bnames[CHOOSE i \in 1..Len(R.bnames) : R.bnames[i].name = k].display]
      acc == Accept(R.uattrs, R.uchords, bn)
  IN \A u \in 1..Len(R.idle) : LET x == R.idle[u] IN
       /\ x.terminated /\ ~x.panic
       /\ (acc => x.ok)
       \* (that a run which looks no chord up refuses an inconsistent dictionary was demanded here for a while; a listing is
       \* not a use (10.5), and a piece of rests is not one either: second audit)

RecOk == CASE R.kind = "skipped" -> TRUE
           [] R.kind = "attrlist" -> AttrListOk
           [] R.kind = "attruse" -> AttrUseOk
           [] R.kind = "chordlist" -> ChordListOk
           [] R.kind = "builtin" -> BuiltinOk
           [] R.kind = "userdict" -> UserDictOk /\ IdleOk
           [] OTHER -> FALSE
Inv == RecOk
=============================================================================
