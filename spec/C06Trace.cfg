SPECIFICATION Spec
INVARIANT C06Inv
INVARIANT AbsurdInv
CHECK_DEADLOCK FALSE
