SPECIFICATION Spec
INVARIANT C06Inv
CHECK_DEADLOCK FALSE
