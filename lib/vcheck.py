#!/usr/bin/env python3
"""Orchestrator for the crd verification framework.

  ./check <ID> <quick|thorough> [--replay <file>]

builds the real `crd` binary from /repo's working tree, runs the property's
TLA+ models exhaustively with TLC, runs the drivers against the real binary,
validates every projected record/trace against the trace specification with
TLC, and writes /verif/evidence/<ID>.json.

exit 0: held on everything explored (KNOWN-FINDING lines for listed findings)
exit 1: `VIOLATION property=<ID> replay=<path>` for a violation not listed
exit 2: the machinery could not decide (build failure, TLC failure, ...)
"""
import hashlib
import json
import os
import re
import shutil
import subprocess
import sys
import tempfile
import time

VERIF = os.path.dirname(os.path.dirname(os.path.abspath(__file__)))
REPO = os.environ.get("VERIF_REPO", "/repo")
SPEC = os.path.join(VERIF, "spec")
HARNESS = os.path.join(VERIF, "harness")


class Undecided(Exception):
    pass


def log(*a):
    print("[check]", *a, file=sys.stderr, flush=True)


def go_env():
    env = dict(os.environ)
    env["GOFLAGS"] = "-mod=mod"
    env["GOPROXY"] = "off"
    # /repo (go 1.24 + tool block) builds with the default go only under toolchain auto-switching
    env.pop("GOTOOLCHAIN", None)
    env.pop("GOSUMDB", None)
    env["GONOSUMCHECK"] = "1"
    env["GONOSUMDB"] = "*"
    env["GOFLAGS"] = "-mod=mod"
    return env


def sh(cmd, cwd=None, env=None, timeout=None, check=True):
    p = subprocess.run(cmd, cwd=cwd, env=env, timeout=timeout, stdout=subprocess.PIPE, stderr=subprocess.STDOUT)
    out = p.stdout.decode("utf-8", "replace")
    if check and p.returncode != 0:
        raise Undecided("command failed (%d): %s\n%s" % (p.returncode, " ".join(cmd), out[-4000:]))
    return p.returncode, out


class Session:
    def __init__(self, prop, tier, seed, replay=None):
        self.prop, self.tier, self.seed, self.replay = prop, tier, seed, replay
        self.t0 = time.time()
        self.scratch = tempfile.mkdtemp(prefix="crdverif-%s-" % prop)
        self.crd = os.path.join(self.scratch, "crd")
        self.vdrive = os.path.join(self.scratch, "vdrive")
        self.vinproc = os.path.join(self.scratch, "vinproc")
        self.inproc_ok = False
        self.states = 0
        self.transitions = 0
        self.traces = 0
        self.models = []
        self.drivers = []
        self.known_hits = []
        self.notes = []
        self.drift = []
        self._metas = []

    def cleanup(self):
        shutil.rmtree(self.scratch, ignore_errors=True)

    # ---------------------------------------------------------------- builds
    def build(self, need_inproc=False, race=False):
        env = go_env()
        log("building crd from", REPO)
        rc, out = sh(["go", "build", "-tags", "verif", "-o", self.crd, "./cmd"], cwd=REPO, env=env, timeout=600, check=False)
        if rc != 0:
            # the guarded hooks may not compile against a changed tree: the verdict path needs no hook, build without the tag
            rc2, out2 = sh(["go", "build", "-o", self.crd, "./cmd"], cwd=REPO, env=env, timeout=600, check=False)
            if rc2 != 0:
                raise Undecided("crd does not build: %s" % out2[-3000:])
            self.notes.append("the verif hooks do not compile against this tree; built without the tag, in-process traces unavailable: " + out[-300:])
            self.hooks_broken = True
        if race:
            sh(["go", "build", "-race", "-tags", "verif", "-o", self.crd + ".race", "./cmd"], cwd=REPO, env=env, timeout=900)
        # go.sum of the harness follows the repository's
        try:
            shutil.copyfile(os.path.join(REPO, "go.sum"), os.path.join(self.scratch, "go.sum"))
        except OSError:
            pass
        hsrc = os.path.join(self.scratch, "harness")
        shutil.copytree(HARNESS, hsrc)
        shutil.copyfile(os.path.join(REPO, "go.sum"), os.path.join(hsrc, "go.sum"))
        if REPO != "/repo":
            gm = open(os.path.join(hsrc, "go.mod")).read().replace("=> /repo", "=> " + REPO)
            open(os.path.join(hsrc, "go.mod"), "w").write(gm)
        sh(["go", "build", "-o", self.vdrive, "./cmd/vdrive"], cwd=hsrc, env=env, timeout=600)
        if need_inproc and not getattr(self, "hooks_broken", False):
            rc, out = sh(["go", "build", "-tags", "verif", "-o", self.vinproc, "./cmd/vinproc"], cwd=hsrc, env=env,
                         timeout=600, check=False)
            self.inproc_ok = rc == 0
            if not self.inproc_ok:
                self.notes.append("in-process harness does not build against this tree; degraded to the CLI path: " + out[-300:])
                log("in-process harness unavailable:", out[-2000:])

    # ---------------------------------------------------------------- TLC
    def tlc(self, module, cfg, cwd, workers=1, timeout=1800, heap=None, extra=None, depth_first=False):
        meta = tempfile.mkdtemp(prefix="meta-", dir=self.scratch)
        env = dict(os.environ)
        jtmp = os.path.join(self.scratch, "jtmp")
        os.makedirs(jtmp, exist_ok=True)
        jopts = ["-XX:+UseParallelGC", "-Xss64m", "-Dfile.encoding=UTF-8", "-Djava.io.tmpdir=" + jtmp]
        if heap:
            jopts.append("-Xmx" + heap)
        if depth_first:
            jopts.append("-Dtlc2.tool.queue.IStateQueue=StateDeque")
        cmd = ["java"] + jopts + ["-cp", "/opt/veriftools/tla/tla2tools.jar:/opt/veriftools/tla/CommunityModules-deps.jar",
                                  "tlc2.TLC", "-workers", str(workers), "-metadir", meta, "-nowarning", "-noGenerateSpecTE"]
        cmd += (extra or []) + ["-config", cfg, module + ".tla"]
        t = time.time()
        try:
            p = subprocess.run(cmd, cwd=cwd, env=env, timeout=timeout, stdout=subprocess.PIPE, stderr=subprocess.STDOUT)
        except subprocess.TimeoutExpired:
            raise Undecided("TLC timed out on %s (%ds)" % (module, timeout))
        out = p.stdout.decode("utf-8", "replace")
        shutil.rmtree(meta, ignore_errors=True)
        res = {"module": module, "cfg": cfg, "rc": p.returncode, "out": out, "wall_s": round(time.time() - t, 2)}
        m = re.search(r"(\d+) states generated, (\d+) distinct states found", out)
        if m:
            res["generated"], res["distinct"] = int(m.group(1)), int(m.group(2))
        m = re.search(r"Error: Invariant (\S+) is violated", out)
        if m:
            res["invariant"] = m.group(1)
        m = re.search(r"Error: Action property (\S+) is violated", out)
        if m:
            res["invariant"] = m.group(1)
        if "is violated" in out and "invariant" not in res:
            m = re.search(r"Error: (.*is violated.*)", out)
            res["invariant"] = m.group(1) if m else "?"
        if "Temporal properties were violated" in out or re.search(r"Error: Temporal property \S+ was violated", out):
            res["invariant"] = "temporal"
        res["ok"] = ("Model checking completed. No error has been found." in out) and p.returncode == 0
        res["violation"] = "invariant" in res
        if not res["ok"] and not res["violation"]:
            # evaluation error inside an invariant etc: TLC reports the state too
            res["error"] = out[-3000:]
        # last value of the trace position, if the spec has one
        ls = re.findall(r"^(?:/\\ )?l = (\d+)\s*$", out, re.M)
        if ls:
            res["l"] = int(ls[-1])
        return res

    def spec_dir(self, files=()):
        d = tempfile.mkdtemp(prefix="spec-", dir=self.scratch)
        for f in os.listdir(SPEC):
            if f.endswith(".tla") or f.endswith(".cfg") or f.endswith(".json"):
                shutil.copyfile(os.path.join(SPEC, f), os.path.join(d, f))
        for src, name in files:
            shutil.copyfile(src, os.path.join(d, name))
        return d

    def model(self, module, cfg=None, workers=8, timeout=1800, files=(), heap=None, extra=None, expect_violation=None,
              constants=None, collect=()):
        """Exhaustive TLC run of a mechanism / theory model. A failure here means the specification is
        inconsistent (machinery problem), never a verdict about crd."""
        cfg = cfg or module + ".cfg"
        d = self.spec_dir(files)
        if constants:
            # override CONSTANT values of the cfg for this tier (e.g. {"L": 12})
            txt = open(os.path.join(d, cfg)).read()
            for k, v in constants.items():
                txt = re.sub(r"(\b%s\s*=\s*)\S+" % re.escape(k), lambda m: m.group(1) + str(v), txt)
            open(os.path.join(d, cfg), "w").write(txt)
        r = self.tlc(module, cfg, d, workers=workers, timeout=timeout, heap=heap, extra=extra)
        entry = {"module": module, "cfg": cfg, "states": r.get("distinct", 0), "generated": r.get("generated", 0),
                 "wall_s": r["wall_s"]}
        if expect_violation:
            if r.get("invariant") != expect_violation:
                raise Undecided("model %s/%s: expected the design-level counterexample of %s, got %s\n%s" % (
                    module, cfg, expect_violation, r.get("invariant"), r["out"][-2000:]))
            entry["expected_counterexample"] = expect_violation
        elif not r["ok"]:
            raise Undecided("model %s/%s does not hold or does not run:\n%s" % (module, cfg, r["out"][-3000:]))
        self.states += r.get("distinct", 0)
        self.transitions += r.get("generated", 0)
        self.models.append(entry)
        log("model %s/%s: %d distinct states, %.1fs" % (module, cfg, r.get("distinct", 0), r["wall_s"]))
        if constants:
            entry["constants"] = constants
        r["collected"] = {}
        for name in collect:
            dst = os.path.join(self.scratch, "%s-%s" % (module, name))
            shutil.copyfile(os.path.join(d, name), dst)
            r["collected"][name] = dst
        shutil.rmtree(d, ignore_errors=True)
        return r

    def simulate(self, module, cfg, num, depth, seed=None, constants=None, timeout=600):
        """TLC's simulator writes `num` behaviours of the specification (text files, one state per action with the name
        of the action) into a directory of the scratch space, to be replayed on the real code. Returns the directory."""
        d = self.spec_dir()
        if constants:
            txt = open(os.path.join(d, cfg)).read()
            for k, v in constants.items():
                txt = re.sub(r"(\b%s\s*=\s*)\S+" % re.escape(k), lambda m: m.group(1) + str(v), txt)
            open(os.path.join(d, cfg), "w").write(txt)
        out = tempfile.mkdtemp(prefix="beh-%s-" % module, dir=self.scratch)
        meta = tempfile.mkdtemp(prefix="meta-", dir=self.scratch)
        cmd = ["tlc", "-workers", "1", "-simulate", "file=%s,num=%d" % (os.path.join(out, "b"), num), "-depth", str(depth),
               "-seed", str(seed if seed is not None else self.seed), "-metadir", meta, "-noGenerateSpecTE", "-config", cfg, module + ".tla"]
        env = dict(os.environ)
        env["JAVA_TOOL_OPTIONS"] = (env.get("JAVA_TOOL_OPTIONS", "") + " -Djava.io.tmpdir=" + os.path.join(self.scratch, "jtmp")).strip()
        os.makedirs(os.path.join(self.scratch, "jtmp"), exist_ok=True)
        try:
            p = subprocess.run(cmd, cwd=d, env=env, timeout=timeout, stdout=subprocess.PIPE, stderr=subprocess.STDOUT)
        except subprocess.TimeoutExpired:
            raise Undecided("TLC simulation timed out on %s" % module)
        shutil.rmtree(meta, ignore_errors=True)
        shutil.rmtree(d, ignore_errors=True)
        n = len(os.listdir(out))
        if n == 0:
            raise Undecided("TLC wrote no behaviour of %s/%s:\n%s" % (module, cfg, p.stdout.decode("utf-8", "replace")[-2000:]))
        log("simulate %s/%s: %d behaviours" % (module, cfg, n))
        self.models.append({"module": module, "cfg": cfg, "simulated_behaviours": n, "depth": depth, "constants": constants or {}})
        return out

    # ---------------------------------------------------------------- drivers
    def drive(self, name, args=(), binary=None, timeout=3600):
        out = tempfile.mkdtemp(prefix="drv-%s-" % name, dir=self.scratch)
        cmd = [binary or self.vdrive, "-bin", self.crd, "-seed", str(self.seed), "-tier", self.tier, "-out", out, "-repo", REPO]
        if self.replay:
            cmd += ["-replay", self.replay]
        cmd += list(args) + [name]
        t = time.time()
        p = subprocess.run(cmd, stdout=subprocess.PIPE, stderr=subprocess.PIPE, timeout=timeout)
        if p.returncode != 0:
            raise Undecided("driver %s failed: %s" % (name, p.stderr.decode("utf-8", "replace")[-3000:]))
        meta = json.load(open(os.path.join(out, "meta.json")))
        meta["dir"] = out
        meta["driver"] = name
        meta["wall_s"] = round(time.time() - t, 2)
        log("driver %s: %d cases, %d records, %.1fs" % (name, meta["evaluations"], meta["traces"], meta["wall_s"]))
        self._metas.append(meta)
        return meta

    def drive_soft(self, name, **kw):
        """A driver whose records only feed mechanism-drift notes: when it cannot run on this tree (the in-process API moved,
        a table it walks changed) that is drift too, not a reason to leave the property undecided."""
        try:
            return self.drive(name, **kw)
        except Undecided as e:
            msg = "MECHANISM-DRIFT driver %s: could not be run on this tree (%s); its mechanism model stops counting as evidence for this run" % (name, str(e)[:200].replace("\n", " "))
            print(msg, flush=True)
            self.notes.append(msg)
            self.drift.append({"trace_spec": "driver " + name, "invariant": "driver failed", "record": str(e)[:500]})
            return None

    def validate(self, meta, module, cfg=None, known=(), timeout=1800, heap="3g", shard=60000, extra_files=(), par=8, constants=None,
                 drift=False):
        """Trace validation: TLC checks every record the driver observed against the trace spec (records are
        sharded over several TLC processes). Raises Violation for a record that breaks the spec and is not a
        listed known finding."""
        import concurrent.futures
        cfg = cfg or module + ".cfg"
        jobs = []
        for fn in meta["files"]:
            path = os.path.join(meta["dir"], fn)
            lines = open(path, "rb").read().split(b"\n")
            if lines and lines[-1] == b"":
                lines.pop()
            cpath = os.path.join(meta["dir"], fn.replace("records", "cases"))
            caselines = open(cpath, "rb").read().split(b"\n") if os.path.exists(cpath) else []
            for si in range(0, max(len(lines), 1), shard):
                jobs.append((lines[si:si + shard], caselines[si:si + shard]))

        def one(job):
            part, cases = job
            part = list(part)
            skipped, hits, st, tr = 0, [], 0, 0
            while True:
                d = self.spec_dir(extra_files)
                with open(os.path.join(d, "records.ndjson"), "wb") as f:
                    f.write(b"\n".join(part) + (b"\n" if part else b""))
                if constants:
                    txt = open(os.path.join(d, cfg)).read()
                    for ck, cv in constants.items():
                        txt = re.sub(r"(\b%s\s*=\s*)\S+" % re.escape(ck), lambda m: m.group(1) + str(cv), txt)
                    open(os.path.join(d, cfg), "w").write(txt)
                r = self.tlc(module, cfg, d, workers=1, timeout=timeout, heap=heap)
                shutil.rmtree(d, ignore_errors=True)
                st += r.get("distinct", 0)
                tr += r.get("generated", 0)
                if r["ok"]:
                    if r.get("distinct", 0) < len(part):
                        raise Undecided("trace spec %s consumed %d of %d records" % (module, r.get("distinct", 0), len(part)))
                    return ("ok", len(part) - skipped, hits, st, tr)
                if not r["violation"] or "l" not in r:
                    raise Undecided("TLC failed on %s:\n%s" % (module, r["out"][-3000:]))
                idx = r["l"] - 1
                if idx < 0 or idx >= len(part):
                    raise Undecided("TLC reported position %d outside the trace" % r["l"])
                rec = json.loads(part[idx])
                if idx < len(cases) and cases[idx]:
                    rec["case"] = json.loads(cases[idx])
                if str(r.get("invariant", "")).startswith("Driver"):
                    rdir = os.environ.get("VERIF_REPLAY_DIR") or os.path.join(VERIF, "replays")
                    os.makedirs(rdir, exist_ok=True)
                    bp = os.path.join(rdir, "badinput-%s.json" % self.prop)
                    json.dump({"property": self.prop, "invariant": r.get("invariant"), "record": rec}, open(bp, "w"), indent=1)
                    raise Undecided("bad test input (generator claim %s not re-derived by the spec); record in %s" % (r.get("invariant"), bp))
                kf = match_known(self.prop, rec, known)
                if kf is None:
                    return ("violation", Violation(self, meta, module, r.get("invariant", "?"), rec, r), hits, st, tr)
                hits.append("KNOWN-FINDING: property=%s %s" % (self.prop, kf["what"]))
                part[idx] = json.dumps({"kind": "skipped"}).encode()
                skipped += 1
                if skipped > 200:
                    raise Undecided("more than 200 records matched known findings")

        violation = None
        with concurrent.futures.ThreadPoolExecutor(max_workers=max(1, min(par, len(jobs)))) as ex:
            for res in ex.map(one, jobs):
                kind, val, hits, st, tr = res
                self.states += st
                self.transitions += tr
                for line in hits:
                    if line not in self.known_hits:
                        self.known_hits.append(line)
                        print(line, flush=True)
                if kind == "violation":
                    violation = violation or val
                else:
                    self.traces += val
        if violation is not None:
            if drift:
                # a step-level divergence from a MECHANISM model is not a verdict about a property: the real code no longer
                # works the way the how-layer model says (or the hook moved). The what-layer checks decide; this is recorded.
                msg = "MECHANISM-DRIFT %s/%s: %s violated by an in-process trace of the real code; the model-checking result of " \
                      "this mechanism model stops counting as evidence for this run" % (module, cfg, violation.invariant)
                print(msg, flush=True)
                self.notes.append(msg)
                self.drift.append({"trace_spec": module + "/" + cfg, "invariant": violation.invariant, "record": str(violation.rec)[:500]})
                return
            raise violation
        self.drivers.append({k: meta[k] for k in ("driver", "evaluations", "distinct_nontrivial", "rule", "exhaustive", "traces", "wall_s")}
                            | {"trace_spec": module + "/" + cfg, "extra": meta.get("extra")})

    def apalache(self, module, obligations, timeout=300):
        """Extra evidence only: inductive-invariant obligations discharged by Apalache (unbounded). A failure to
        run is noted; a refuted obligation means the specification is wrong (exit 2), never a verdict about crd."""
        d = self.spec_dir()
        done = []
        for init, inv, length in obligations:
            cmd = ["apalache-mc", "check", "--init=" + init, "--inv=" + inv, "--length=%d" % length, "--out-dir=" + os.path.join(d, "_apalache"), module + ".tla"]
            try:
                # (the launcher makes its java.io.tmpdir with `mktemp -t`: keep it inside the scratch directory, not in /tmp)
                p = subprocess.run(cmd, cwd=d, stdout=subprocess.PIPE, stderr=subprocess.STDOUT, timeout=timeout, env=dict(os.environ, TMPDIR=self.scratch))
            except (subprocess.TimeoutExpired, FileNotFoundError):
                self.notes.append("apalache: %s %s=>%s not decided (timeout / not available)" % (module, init, inv))
                continue
            out = p.stdout.decode("utf-8", "replace")
            if "EXITCODE: OK" in out:
                done.append("%s: %s /\\ %d step(s) => %s" % (module, init, length, inv))
            elif "EXITCODE: ERROR (12)" in out or "violat" in out.lower():
                shutil.rmtree(d, ignore_errors=True)
                raise Undecided("apalache refutes %s => %s in %s:\n%s" % (init, inv, module, out[-1500:]))
            else:
                self.notes.append("apalache: %s %s=>%s not decided" % (module, init, inv))
        shutil.rmtree(d, ignore_errors=True)
        if done:
            self.notes.append("apalache discharged (unbounded): " + "; ".join(done))
        return done

    def binding_selftest(self, meta, module, mutate, cfg=None, constants=None, expect=None):
        """Demonstrates that the trace spec is bound to what was recorded: corrupt one field of one recorded
        trace and require TLC to reject it. A spec that still accepts is vacuous -> the check cannot decide."""
        cfg = cfg or module + ".cfg"
        path = os.path.join(meta["dir"], meta["files"][0])
        first = open(path, "rb").readline()
        rec = json.loads(first)
        mutate(rec)
        d = self.spec_dir()
        with open(os.path.join(d, "records.ndjson"), "w") as f:
            f.write(json.dumps(rec) + "\n")
        if constants:
            txt = open(os.path.join(d, cfg)).read()
            for ck, cv in constants.items():
                txt = re.sub(r"(\b%s\s*=\s*)\S+" % re.escape(ck), lambda m: m.group(1) + str(cv), txt)
            open(os.path.join(d, cfg), "w").write(txt)
        r = self.tlc(module, cfg, d, workers=1, timeout=600)
        shutil.rmtree(d, ignore_errors=True)
        if not r.get("violation") or (expect and r.get("invariant") != expect):
            raise Undecided("binding self-test: a corrupted trace was not rejected by %s (%s)" % (module, r.get("invariant")))
        self.notes.append("binding self-test: %s rejects a trace with one corrupted field (%s)" % (module, r.get("invariant")))

    # ---------------------------------------------------------------- evidence
    def evidence(self, level, violations, assumptions, explanation=None):
        evdir = os.environ.get("VERIF_EVIDENCE_DIR") or os.path.join(VERIF, "evidence")
        os.makedirs(evdir, exist_ok=True)
        samples = []
        evaluations = 0
        distinct = 0
        rules = []
        exhaustive = bool(self.drivers)
        seen_runs = set()
        for d in self.drivers:
            key = (d["driver"], d["rule"], d["wall_s"])          # one driver run validated by several trace specs counts once
            if key not in seen_runs:
                seen_runs.add(key)
                evaluations += d["evaluations"]
                distinct += d["distinct_nontrivial"]
            r = "%s: %s" % (d["driver"], d["rule"])
            if r not in rules:
                rules.append(r)
            exhaustive = exhaustive and bool(d["exhaustive"])
        for m in getattr(self, "_metas", []):
            samples += m.get("samples", [])[:2]
        ev = {
            "property_id": self.prop,
            "tier": self.tier,
            "seed": self.seed,
            "level": level,
            "coverage": {
                "states": max(self.states, 0),
                "transitions": max(self.transitions, 0),
                "traces_validated_against_impl": self.traces,
                "samples": samples or [{"note": "no driver ran"}],
                "evaluations": evaluations,
                "distinct_nontrivial": distinct,
                "rule": " | ".join(rules),
                "exhaustive": exhaustive,
                "models": self.models,
                "drivers": self.drivers,
                "known_findings_hit": self.known_hits,
                "notes": self.notes,
                "mechanism_drift": self.drift,
                "inproc": "available" if self.inproc_ok else "not used / unavailable",
                "explanation": explanation or "",
            },
            "assumptions": assumptions,
            "wall_s": round(time.time() - self.t0, 2),
            "violations": violations,
        }
        path = os.path.join(evdir, self.prop + ".json")
        tmp = path + ".tmp"
        with open(tmp, "w") as f:
            json.dump(ev, f, indent=1, ensure_ascii=True)
        os.replace(tmp, path)


class Violation(Exception):
    def __init__(self, sess, meta, module, invariant, rec, tlc):
        self.sess, self.meta, self.module, self.invariant, self.rec, self.tlcres = sess, meta, module, invariant, rec, tlc

    def write_replay(self):
        rdir = os.environ.get("VERIF_REPLAY_DIR") or os.path.join(VERIF, "replays")
        os.makedirs(rdir, exist_ok=True)
        body = {"property": self.sess.prop, "driver": self.meta["driver"], "trace_spec": self.module,
                "invariant": self.invariant, "tier": self.sess.tier, "seed": self.sess.seed, "record": self.rec}
        h = hashlib.sha256(json.dumps(self.rec.get("case", self.rec), sort_keys=True).encode()).hexdigest()[:12]
        path = os.path.join(rdir, "%s-%s.json" % (self.sess.prop, h))
        with open(path, "w") as f:
            json.dump(body, f, indent=1)
        return path


def load_known():
    p = os.path.join(VERIF, "known_findings.json")
    if not os.path.exists(p):
        return []
    return [k for k in json.load(open(p)).get("findings", []) if k.get("status") == "open"]


def dig(rec, path):
    cur = rec
    for part in path.split("."):
        if isinstance(cur, dict) and part in cur:
            cur = cur[part]
        else:
            return None
    return cur


def match_known(prop, rec, known):
    for k in known:
        if k.get("property") != prop:
            continue
        ok = True
        for path, want in k.get("match", {}).items():
            got = dig(rec, path)
            if isinstance(want, dict) and "regex" in want:
                if not isinstance(got, str) or not re.search(want["regex"], got):
                    ok = False
            elif got != want:
                ok = False
        if ok and k.get("match"):
            return k
    return None
