#!/usr/bin/env python3
"""Writes /verif/MANIFEST.json from the table below (kept next to the plans so they stay in step)."""
import json
import os
import sys

sys.path.insert(0, os.path.dirname(os.path.abspath(__file__)))
import manifest_data as md  # noqa: E402

VERIF = os.path.dirname(os.path.dirname(os.path.abspath(__file__)))
props = [json.loads(l)["id"] for l in open(os.path.join(VERIF, "properties.jsonl"))]
checks = []
for pid in props:
    if pid not in md.CHECKS:
        continue
    c = md.CHECKS[pid]
    checks.append({
        "property_id": pid,
        "quick_cmd": "./check %s quick" % pid,
        "thorough_cmd": "./check %s thorough" % pid,
        "evidence_file": "evidence/%s.json" % pid,
        "replay_cmd_template": "./check %s quick --replay {path}" % pid,
        "engine": "tlc-trace-validation",
        "level_claimed": {"category": c.get("category", "model_checking"), "text": c["text"], "design_ref": c.get("design_ref", "DESIGN.md §5 " + pid)},
        "level_note": c["note"],
        "technique": c["technique"],
    })
man = {
    "version": 1,
    "setup_cmd": "./setup.sh",
    "hooks": md.HOOKS,
    "engines": [{
        "name": "tlc-trace-validation", "path": "check",
        "serves_properties": [c["property_id"] for c in checks],
        "kind_free_text": "explicit TLA+ specification (spec/*.tla): mechanism models checked exhaustively by TLC, and every observation of the "
                          "real crd binary (projected to ndjson by harness/cmd/vdrive) validated by TLC against the trace specification",
    }],
    "checks": checks,
    "notes": md.NOTES,
    "not_applicable": [{"property_id": p, "reason": md.NOT_APPLICABLE.get(p, "check not built yet in this round; see DESIGN.md")}
                       for p in props if p not in md.CHECKS],
}
with open(os.path.join(VERIF, "MANIFEST.json"), "w") as f:
    json.dump(man, f, indent=1)
print("MANIFEST.json:", len(checks), "checks,", len(man["not_applicable"]), "not claimed")
