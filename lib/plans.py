"""Per-property plans: which models TLC explores exhaustively, which drivers observe the real
binary, which trace specification judges the observations."""

ASSUME_COMMON = [
    "TLC (tla2tools 1.8.0) and the CommunityModules Json reader are correct",
    "the TLA+ modules under /verif/spec state the property correctly",
    "the harness projections (YAML -> records, SMF bytes -> events; the latter re-derived by SMF.tla in C08) are faithful",
    "verdicts come from the real crd binary rebuilt from /repo's working tree for this run",
]


def C13(s, known):
    s.build()
    s.model("TheoryMC", workers=4)
    m = s.drive("c13")
    s.validate(m, "C13Trace", known=known)
    return dict(level="model_checking",
                explanation="TheoryMC: two independent scale definitions, step patterns, relative pairs, altered-letter sets for all 42 "
                            "key spellings (model); C13Trace: every scale crd lists or describes, and every refusal, judged by Theory.tla")


def C03(s, known):
    s.build()
    s.model("TheoryMC", workers=4)
    m = s.drive("c03")
    s.validate(m, "C03Trace", known=known)
    return dict(level="model_checking",
                explanation="all 12,936 single chords through the real `text conv syllable`, each judged by Theory.tla: interval number "
                            "from letters, size from pitch distance, scale notes always accepted, refusals carry no output")


def C14(s, known):
    s.build(need_inproc=True)
    s.model("CircleMC", workers=2)
    if s.inproc_ok:
        mi = s.drive("circle", binary=s.vinproc)
        s.validate(mi, "C14Trace", known=known, shard=max(500, len_records(mi) // 12 + 1))
    m = s.drive("c14")
    s.validate(m, "C14Trace", known=known)
    return dict(level="model_checking",
                explanation="CircleMC: the two-ring index mechanism refines pitch arithmetic from all 28 keys whichever spelling is read; algebraic "
                            "laws as assumptions. C14Trace: every real `info key conv` run must print exactly Spellings(Fold(chain))")


def C15(s, known):
    s.build(need_inproc=True)
    s.model("TheoryMC", workers=4)
    if s.inproc_ok:
        md = s.drive("degree", binary=s.vinproc)
        s.validate(md, "C15Trace", known=known, shard=1000)
    m = s.drive("c15")
    s.validate(m, "C15Trace", known=known)
    return dict(level="model_checking",
                explanation="TheoryMC: Size against a second formulation and Parse(Print(iv)) = iv for n<=64 x 7 qualities (model). C15Trace: every "
                            "interval notation through the real `info attr describe` (size, canonical print, applied note, octave), every notation "
                            "string up to the bound, `gen attr` validity/completeness, `info chord describe` for the dictionary")


def C17(s, known):
    s.build()
    s.model("TheoryMC", workers=4)
    m = s.drive("c17")
    s.validate(m, "C17Trace", known=known)
    return dict(level="model_checking",
                explanation="TheoryMC: stacking thirds on every scale degree gives the textbook triad/seventh qualities and stays inside the scale "
                            "(model). C17Trace: all 28 x 14 chords crd lists, through the whole real pipeline (describe -> text conv -> write -> SMF)")


def C08(s, known):
    s.build(need_inproc=True)
    writer_sat(s, known, verdict=False)      # "valid variable-length deltas": the writer refuses what the format cannot hold
    sm = s.drive("smfsanity")
    s.model("SMFSanity", workers=2, files=[(sm["dir"] + "/records.ndjson", "records.ndjson")])
    m = s.drive("c08")
    if m["extra"]["files"] < m["evaluations"] * 0.5:
        raise __import__("vcheck").Undecided("fewer than half of the generated documents produced a file")
    s.validate(m, "SMF", cfg="C08Trace.cfg", known=known, shard=max(20, len_records(m) // 12 + 1))
    # growth beyond the listed properties (recorded as a note when it diverges, never a violation)
    s.validate(m, "EventTrace", known=known, shard=max(20, len_records(m) // 12 + 1), drift=True)
    return dict(level="model_checking",
                explanation="SMF.tla reads every byte of every file the real `crd write` produced (one TLC state per byte) and re-derives the "
                            "event list of the harness reader; SMFSanity: the recogniser accepts hand-built minimal files and rejects each corruption class")


def len_records(m):
    return m["traces"]


def writer_mechanism(s, known):
    """The how-layer: Writer.tla model-checked for N = 1..4 tracks, the two named deviations must yield their
    design-level counterexamples, and step-level traces of the real midix writer (in-process, verif hooks) are
    validated against the same actions."""
    quick = s.tier == "quick"
    for n in (1, 2, 3) if quick else (1, 2, 3, 4, 5):
        s.model("WriterMC", workers=8, constants={"N": n, "L": 4 if quick else 5})
    if not quick:
        s.apalache("WriterInd", [("Init", "IndInv", 0), ("IndInit", "IndInv", 1), ("IndInit", "EOTInv", 0)])
    s.model("WriterMC", cfg="WriterDevShared.cfg", workers=2, expect_violation="EOTInv")
    s.model("WriterMC", cfg="WriterDevDrop.cfg", workers=2, expect_violation="EOTInv")
    if not s.inproc_ok:
        return
    for n in (1, 2, 3, 6) if quick else (1, 2, 3, 4, 5, 8, 16):
        m = s.drive("writer", binary=s.vinproc, args=["-n", str(n)])
        # what-level on the observed bytes (verdict) ...
        s.validate(m, "WriterTrace", cfg="WriterTraceWhat.cfg", known=known, shard=max(10, len_records(m) // 4 + 1), constants={"N": n})
        # ... and step-level conformance with the mechanism model (drift, not a verdict)
        s.validate(m, "WriterTrace", known=known, shard=max(10, len_records(m) // 4 + 1), constants={"N": n}, drift=True)
        if n == 2:
            def corrupt(rec):
                ev = rec["events"][len(rec["events"]) // 2]
                ev["tpend"][-1] += 1
            s.binding_selftest(m, "WriterTrace", corrupt, constants={"N": n}, expect="Conforms")


def writer_sat(s, known, verdict=True):
    """The writer's bookkeeping in machine arithmetic (WriterSat.tla): saturating sums and the refusal of deltas the
    format cannot hold, model-checked on small words; the deviation (wrapping sums) must be caught; traces of the real
    writer at the scale of the real words (2^26-tick units) are validated against the same actions."""
    quick = s.tier == "quick"
    s.model("WriterSat", workers=8, constants={"N": 2 if quick else 3, "L": 4})
    s.model("WriterSat", cfg="WriterSatDev.cfg", workers=2, expect_violation="Faithful")
    # the arithmetic lemma for the real constants (2^32-value words, 2^28-1 limit) and unbounded ideal values
    s.apalache("SatInd", [("Init", "IndInv", 0), ("IndInit", "IndInv", 1), ("IndInit", "RefusalExact", 0)])
    if not s.inproc_ok:
        return
    for n in (1, 3) if quick else (1, 2, 3, 5):
        m = s.drive("sat", binary=s.vinproc, args=["-n", str(n)]) if verdict else s.drive_soft("sat", binary=s.vinproc, args=["-n", str(n)])
        if m is None:
            return
        # what-level (verdict): the outcome of WriteTo against the length of the piece
        # (C08 speaks only of what is output on success: there the outcome demand is a drift note, not a verdict)
        s.validate(m, "WriterSatTrace", cfg="WriterSatTraceWhat.cfg", known=known, shard=max(10, len_records(m) // 4 + 1), constants={"N": n}, drift=not verdict)
        # step-level conformance with the mechanism model (drift)
        s.validate(m, "WriterSatTrace", known=known, shard=max(10, len_records(m) // 4 + 1), constants={"N": n}, drift=True)
        if n == 3:
            def corrupt(rec):
                ev = rec["events"][-1]
                ev["outcome"] = "refused" if ev["outcome"] == "written" else "written"
            s.binding_selftest(m, "WriterSatTrace", corrupt, constants={"N": n}, expect="Conforms")


def play_mechanism(s, known):
    """The how-layer of playing a document: Play.tla (Opt cells) model-checked against the declarative meaning, and
    call traces of the real play package validated against the same actions."""
    s.model("PlayMC", workers=8)
    if not s.inproc_ok:
        return
    m = s.drive_soft("play", binary=s.vinproc)
    if m is None:
        return
    s.validate(m, "PlayTrace", known=known, shard=max(10, len_records(m) // 8 + 1), drift=True)

    def corrupt(rec):
        for c in rec["calls"]:
            if c[0] == "tempo":
                c[1] += 1
                return
    s.binding_selftest(m, "PlayTrace", corrupt, expect="Conforms")


def _write(prop, driver, expl):
    def plan(s, known):
        s.build(need_inproc=prop in ("C01", "C02", "C06", "C07"))
        s.model("TheoryMC", workers=4)
        if prop in ("C02", "C06"):
            writer_mechanism(s, known)
            writer_sat(s, known)
        if prop in ("C01", "C07"):
            play_mechanism(s, known)
        m = s.drive(driver)
        s.validate(m, "WriteTrace", cfg=prop + "Trace.cfg", known=known, shard=max(20, len_records(m) // 12 + 1))
        return dict(level="model_checking", explanation=expl)
    return plan


C01 = _write("C01", "c01", "every chord of every generated document: sounded keys (decoded from the SMF bytes) = bass + chord tones computed by Piece.tla/Theory.tla with the key in force")
C02 = _write("C02", "c02", "every chord's strikes at Start(i) and releases at Start(i+1), with exact rational arithmetic and either neighbour at a half tick")
C06 = _write("C06", "c06", "merged events of --track N = those of --track 1; every track's end-of-track at the total length")
C07 = _write("C07", "c07", "control events demanded by the document (and flags) present at the start of their instance with the written value, nothing else; velocity persistence and order")

def C16(s, known):
    s.build()
    s.model("TheoryMC", workers=4)
    s.model("DictMC", workers=4)
    m = s.drive("c16")
    s.validate(m, "C16Trace", known=known, shard=max(20, len_records(m) // 12 + 1))
    return dict(level="model_checking",
                explanation="Dict.tla: load-ordered definitions, later wins, parent-first transitive resolution, accept iff named, no dangling reference, "
                            "acyclic. Every enumerated user dictionary is loaded by the real binary and every user name/display played; built-ins by name and display")


def grammar_models(s, L, N, K):
    import os, subprocess, vcheck
    prods = os.path.join(s.scratch, "productions.json")
    rc = subprocess.run(["python3", os.path.join(vcheck.VERIF, "tools", "yacc2json.py"),
                         os.path.join(vcheck.REPO, "input/ast/chords.y"), prods])
    if rc.returncode != 0:
        raise vcheck.Undecided("cannot extract the productions from chords.y")
    g = s.model("Grammar", cfg="GrammarMC.cfg", workers=1, files=[(prods, "productions.json")], constants={"L": L}, collect=["sentences.ndjson"])
    sents = g["collected"]["sentences.ndjson"]
    s.model("ChordLangMC", workers=8, files=[(sents, "sentences.ndjson")], constants={"N": N, "L": L})
    s.model("LexerMC", workers=8, constants={"K": K})
    s.model("LexerMC", cfg="LexerDev.cfg", workers=2, expect_violation="temporal")     # the pinned tree's hang, at design level
    return sents


def C04(s, known):
    s.build(need_inproc=True)
    quick = s.tier == "quick"
    sents = grammar_models(s, 9 if quick else 12, 4 if quick else 5, 3 if quick else 4)
    if s.inproc_ok:
        # the real lexer, token by token, against the mode machine of Lexer.tla (spans and mode flags through the verif hooks)
        ml = s.drive("lexer", binary=s.vinproc)
        s.validate(ml, "LexerTrace", known=known, shard=max(200, len_records(ml) // 12 + 1), drift=True)

        def corrupt(rec):
            for r in [rec]:
                if r["toks"]:
                    r["toks"][0]["meta"] = not r["toks"][0]["meta"]
                else:
                    r["lexErr"] = not r["lexErr"]
        s.binding_selftest(ml, "LexerTrace", corrupt)
        # the shipped LALR tables against the language, without the lexer in between
        mt = s.drive("tokens", binary=s.vinproc, args=["-aux", sents])
        s.validate(mt, "TokenTrace", known=known, shard=max(1000, len_records(mt) // 12 + 1))
    m = s.drive("c04", args=["-aux", sents])
    s.validate(m, "C04Trace", known=known, shard=max(50, len_records(m) // 12 + 1))
    return dict(level="model_checking",
                explanation="Grammar.tla derives every sentence <= L tokens from the productions extracted from the working tree's chords.y "
                            "(unambiguity checked); ChordLangMC: hand-written recogniser = grammar on all token strings <= N and all single-token "
                            "mutations of sentences; LexerMC: progress, termination, nothing dropped, mode discipline for all inputs <= K runes. "
                            "Binding: sentences rendered with trivia, their prefixes and mutations, and ALL strings over 20 runes up to the bound, "
                            "each through the real `crd text parse`: accepted iff Lexer o ChordLang accept, tree equal")


def C05(s, known):
    s.build()
    s.model("TheoryMC", workers=4)
    s.model("LexerMC", workers=8, constants={"K": 3})
    s.model("ConvMC", workers=4, constants={"Depth": 1 if s.tier == "quick" else 2})
    m = s.drive("c05")
    s.validate(m, "ConvTrace", cfg="C05Trace.cfg", known=known, shard=max(10, len_records(m) // 12 + 1))
    s.validate(m, "TransposeTrace", known=known, shard=max(10, len_records(m) // 12 + 1))
    return dict(level="model_checking",
                explanation="Conv.tla: the converter as a fold carrying the current key (change applied before the carrying chord); every progression is "
                            "rendered as degree text and as note-name text per key, the spec re-derives that they denote the same instances, and the real "
                            "conversions must equal that meaning and each other")


def C11(s, known):
    s.build()
    s.model("LexerMC", workers=8, constants={"K": 3 if s.tier == "quick" else 4})
    m = s.drive("c11")
    s.validate(m, "ConvTrace", cfg="C11Trace.cfg", known=known, shard=max(10, len_records(m) // 12 + 1))
    return dict(level="model_checking",
                explanation="Lexer.tla defines the abstract token sequence (NUMBER by value, SHARP/FLAT by kind, optional `_` dropped); for every "
                            "(canonical text, spelling variant) pair the spec re-derives that the two are variants, then the real `text conv` outputs must be "
                            "byte-identical and equal to the meaning Conv.tla computes (an accepted accidental is honoured)")


def C09(s, known):
    s.build()
    s.model("LexerMC", workers=8, constants={"K": 3 if s.tier == "quick" else 4})
    s.model("RunsMC", workers=2)
    m = s.drive("c09")
    s.validate(m, "C09Trace", known=known, shard=max(200, len_records(m) // 12 + 1))
    return dict(level="model_checking",
                explanation="Runs.tla: outcome protocol and the nonsense x channel x stage matrix (RunsMC enumerates it; the driver's cells must cover every "
                            "live cell); LexerMC: every scan loop ends at end of input. Every run of the real binary - matrix cells and seeded byte-level "
                            "exploration (truncation at every offset, mutations, random bytes, flags, dictionary files) - is judged by TLC",
                assumptions=["the arbitrary-bytes part is seeded exploration judged by the specification, not exhaustive"])


def C12(s, known):
    s.build(race=(s.tier != "quick"), need_inproc=True)
    # the iterator: every interleaving for trees up to 6 nodes, channel capacity 1..2 (abstracting 100), consumer stopping at any node or never
    for cap in (1, 2):
        for stop in ((0, 1, 3, 6) if s.tier == "quick" else range(0, 7)):
            s.model("IterVisitor", cfg="IterVisitorMC.cfg", workers=2, constants={"N": 6, "Cap": cap, "StopAt": stop})
    if s.inproc_ok:
        mi = s.drive("iter", binary=s.vinproc)
        s.validate(mi, "IterTrace", known=known, shard=max(20, len_records(mi) // 8 + 1), drift=True)
        # TLC-generated interleavings replayed on the real iterator (producer and consumer stepped through the verif gate hook)
        quick = s.tier == "quick"
        parts = []
        for n, stop, cfg, num in ((40, 17, "IterReplay.cfg", 12 if quick else 60), (40, 0, "IterReplay.cfg", 8 if quick else 40), (7, 7, "IterReplay.cfg", 8 if quick else 40),
                                  (130, 0, "IterReplayFill.cfg", 4 if quick else 20), (130, 120, "IterReplayFill.cfg", 4 if quick else 20), (104, 101, "IterReplayFill.cfg", 4 if quick else 20)):
            d = s.simulate("IterReplay", cfg, num=num, depth=700, constants={"N": n, "StopAt": stop})
            parts.append("%s:%d:%d" % (d, n, stop))
        mg = s.drive("gate", binary=s.vinproc, args=["-aux", ";".join(parts)])
        if mg["traces"] == 0:
            raise __import__("vcheck").Undecided("no behaviour was replayed on the real iterator")
        s.validate(mg, "IterReplayTrace", cfg="IterReplayTraceWhat.cfg", known=known, shard=1000)
        s.validate(mg, "IterReplayTrace", known=known, shard=1000, drift=True)

        def corrupt(rec):
            rec["realGot"] = rec["realGot"] + 1
        s.binding_selftest(mg, "IterReplayTrace", corrupt, cfg="IterReplayTraceWhat.cfg", expect="Outcome")
    m = s.drive("c12")
    s.validate(m, "C12Trace", known=known, shard=1000)
    return dict(level="model_checking",
                explanation="IterVisitor.tla (PlusCal): producer goroutine, bounded channel, consumer with early exit and drain - every interleaving: "
                            "document order, exact prefix, no leaked producer, termination. Runs: each data-producing command repeated k times across "
                            "GOMAXPROCS, --debug, stdin/-/FILE, stdout/-o; TLC requires one (success, output sha) per request class",
                assumptions=["with k repetitions a 2-way order flip escapes with probability 2^-(k-1)"])


def C10(s, known):
    s.build()
    s.model("TheoryMC", workers=4)
    m = s.drive("c10")
    s.validate(m, "PipeTrace", cfg="C10Trace.cfg", known=known, shard=max(10, len_records(m) // 12 + 1))
    return dict(level="model_checking",
                explanation="TheoryMC: Parse(Print(x)) = x on the interval domain (model). PipeTrace: text -> real text conv -> real write: the events must be "
                            "the piece Piece.tla assigns to the instances Conv.tla computes from the text (C01/C02/C07 predicates); every scalar value survives "
                            "write parse; write conv -c cmt | write plays the original plus chord-name texts")


PLANS = {"C10": C10, "C12": C12, "C09": C09, "C11": C11, "C05": C05, "C04": C04, "C16": C16, "C01": C01, "C02": C02, "C06": C06, "C07": C07, "C08": C08, "C17": C17, "C15": C15, "C14": C14, "C13": C13, "C03": C03}
