"""Per-property plans: which models TLC explores exhaustively, which drivers observe the real
binary, which trace specification judges the observations."""

ASSUME_COMMON = [
    "TLC (tla2tools 1.8.0) and the CommunityModules Json reader are correct",
    "the TLA+ modules under /verif/spec state the property correctly",
    "the harness projections (YAML -> records, SMF bytes -> events; the latter re-derived by SMF.tla in C08) are faithful",
    "verdicts come from the real crd binary rebuilt from /repo's working tree for this run",
]


def C13(s, known):
    s.build()
    s.model("TheoryMC", workers=4)
    m = s.drive("c13")
    s.validate(m, "C13Trace", known=known)
    return dict(level="model_checking",
                explanation="TheoryMC: two independent scale definitions, step patterns, relative pairs, altered-letter sets for all 42 "
                            "key spellings (model); C13Trace: every scale crd lists or describes, and every refusal, judged by Theory.tla")


def C03(s, known):
    s.build()
    s.model("TheoryMC", workers=4)
    m = s.drive("c03")
    s.validate(m, "C03Trace", known=known)
    return dict(level="model_checking",
                explanation="all 12,936 single chords through the real `text conv syllable`, each judged by Theory.tla: interval number "
                            "from letters, size from pitch distance, scale notes always accepted, refusals carry no output")


def C14(s, known):
    s.build()
    s.model("CircleMC", workers=2)
    m = s.drive("c14")
    s.validate(m, "C14Trace", known=known)
    return dict(level="model_checking",
                explanation="CircleMC: the two-ring index mechanism refines pitch arithmetic from all 28 keys whichever spelling is read; algebraic "
                            "laws as assumptions. C14Trace: every real `info key conv` run must print exactly Spellings(Fold(chain))")


def C15(s, known):
    s.build()
    s.model("TheoryMC", workers=4)
    m = s.drive("c15")
    s.validate(m, "C15Trace", known=known)
    return dict(level="model_checking",
                explanation="TheoryMC: Size against a second formulation and Parse(Print(iv)) = iv for n<=64 x 7 qualities (model). C15Trace: every "
                            "interval notation through the real `info attr describe` (size, canonical print, applied note, octave), every notation "
                            "string up to the bound, `gen attr` validity/completeness, `info chord describe` for the dictionary")


def C17(s, known):
    s.build()
    s.model("TheoryMC", workers=4)
    m = s.drive("c17")
    s.validate(m, "C17Trace", known=known)
    return dict(level="model_checking",
                explanation="TheoryMC: stacking thirds on every scale degree gives the textbook triad/seventh qualities and stays inside the scale "
                            "(model). C17Trace: all 28 x 14 chords crd lists, through the whole real pipeline (describe -> text conv -> write -> SMF)")


PLANS = {"C17": C17, "C15": C15, "C14": C14, "C13": C13, "C03": C03}
