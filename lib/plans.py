"""Per-property plans: which models TLC explores exhaustively, which drivers observe the real
binary, which trace specification judges the observations."""

ASSUME_COMMON = [
    "TLC (tla2tools 1.8.0) and the CommunityModules Json reader are correct",
    "the TLA+ modules under /verif/spec state the property correctly",
    "the harness projections (YAML -> records, SMF bytes -> events; the latter re-derived by SMF.tla in C08) are faithful",
    "verdicts come from the real crd binary rebuilt from /repo's working tree for this run",
]


def C13(s, known):
    s.build()
    s.model("TheoryMC", workers=4)
    m = s.drive("c13")
    s.validate(m, "C13Trace", known=known)
    return dict(level="model_checking",
                explanation="TheoryMC: two independent scale definitions, step patterns, relative pairs, altered-letter sets for all 42 "
                            "key spellings (model); C13Trace: every scale crd lists or describes, and every refusal, judged by Theory.tla")


PLANS = {"C13": C13}
