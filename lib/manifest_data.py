HOOKS = {
    "guard": "verif",
    "enable": "go build -tags verif (every ./check run builds /repo/cmd with the tag on)",
    "baseline_off_cmd": "cd /repo && GOFLAGS=-mod=mod GOPROXY=off go test -vet=off -count=1 ./...",
    "source_commits": [],
    "add_only": True,
}
NOTES = ("Every check rebuilds the crd binary from /repo's working tree into a scratch directory, runs the TLA+ models with TLC, "
         "runs the drivers against that binary and lets TLC validate every record. exit 0 ok / 1 VIOLATION / 2 undecided (infrastructure).")
NOT_APPLICABLE = {}
TB = "TLC, the TLA+ modules in spec/, the harness projections (YAML->records; SMF bytes->events, re-derived by SMF.tla in C08)"
CHECKS = {
    "C13": dict(
        text="Exhaustive over the property's own finite domain: all 42 key spellings through the real binary (`info key list`, `info key describe`), "
             "each observation judged by TLC against Theory.tla (signature by circle-of-fifths arithmetic, scale by signature); the theory itself is "
             "model-checked (two independent scale definitions agree, step patterns, relative pairs).",
        note=TB,
        technique="TLA+ oracle (Theory.tla) + TLC validation of records observed from the real CLI, exhaustive"),
    "C03": dict(
        text="Exhaustive over the property's own domain: all 12,936 single chords (28 keys x 21 roots x (none + 21 basses)) each through one real "
             "`crd text conv syllable --key K` run; TLC judges every outcome with Theory.tla (number from letter distance, size from pitch distance, "
             "scale notes always accepted, a refusal prints nothing).",
        note=TB,
        technique="TLA+ oracle (Theory.tla) + TLC validation of records observed from the real CLI, exhaustive"),
    "C14": dict(
        text="CircleMC.tla model-checks crd's two-ring index mechanism against pitch arithmetic from all 28 keys (refinement, independence from the "
             "spelling read, algebraic laws). Every real `crd info key conv` run (quick: all chains <= 3 + seeded long chains; thorough: all 152,880 "
             "chains <= 6 + 3,000 long ones) is validated by TLC: printed set = Spellings(Fold(chain)).",
        note=TB,
        technique="TLA+ mechanism model refined to a what-level model (TLC exhaustive) + TLC trace validation of real CLI runs"),
    "C15": dict(
        text="TheoryMC: textbook Size equals an independent scale-walk formulation and Parse(Print(iv)) = iv for n <= 64 x 7 qualities. Every interval "
             "notation (6 marks x n) x 21 roots x 2 preferences through the real `info attr describe`, all notation strings up to the bound through "
             "`info attr list`, `gen attr` validity/completeness, `info chord describe` for 21 roots x 23 symbols: each record judged by TLC.",
        note=TB,
        technique="TLA+ oracle (Theory.tla, model-checked for self-consistency) + TLC validation of records observed from the real CLI"),
    "C17": dict(
        text="TheoryMC: stacking thirds on every degree of every key yields the stated quality lists and stays inside the scale. All 28 x 14 chords "
             "printed by `info key describe` go through the real pipeline (text conv syllable --key K | write --key K); TLC checks root, quality "
             "and sounded pitch classes of each.",
        note=TB,
        technique="TLA+ oracle (Harmonise in Theory.tla) + TLC validation of whole-pipeline observations, exhaustive"),
}
