HOOKS = {
    "guard": "verif",
    "enable": "go build -tags verif (every ./check run builds /repo/cmd with the tag on)",
    "baseline_off_cmd": "cd /repo && GOFLAGS=-mod=mod GOPROXY=off go test -vet=off -count=1 ./...",
    "source_commits": ["1132257", "94a87bb", "2f29a6f", "e15a799"],
    "add_only": True,
}
NOTES = ("Every check rebuilds the crd binary from /repo's working tree into a scratch directory, runs the TLA+ models with TLC, "
         "runs the drivers against that binary and lets TLC validate every record. exit 0 ok / 1 VIOLATION / 2 undecided (infrastructure).")
NOT_APPLICABLE = {}
TB = "TLC, the TLA+ modules in spec/, the harness projections (YAML->records; SMF bytes->events, re-derived by SMF.tla in C08)"
CHECKS = {
    "C13": dict(
        text="Exhaustive over the property's own finite domain: all 42 key spellings through the real binary (`info key list`, `info key describe`), "
             "each observation judged by TLC against Theory.tla (signature by circle-of-fifths arithmetic, scale by signature); the theory itself is "
             "model-checked (two independent scale definitions agree, step patterns, relative pairs).",
        note=TB,
        technique="TLA+ oracle (Theory.tla) + TLC validation of records observed from the real CLI, exhaustive"),
    "C03": dict(
        text="Exhaustive over the property's own domain: all 12,936 single chords (28 keys x 21 roots x (none + 21 basses)) each through one real "
             "`crd text conv syllable --key K` run; TLC judges every outcome with Theory.tla (number from letter distance, size from pitch distance, "
             "scale notes always accepted, a refusal prints nothing).",
        note=TB,
        technique="TLA+ oracle (Theory.tla) + TLC validation of records observed from the real CLI, exhaustive"),
    "C14": dict(
        text="CircleMC.tla model-checks crd's two-ring index mechanism against pitch arithmetic from all 28 keys (refinement, independence from the "
             "spelling read, algebraic laws). Every real `crd info key conv` run (quick: all chains <= 3 + seeded long chains; thorough: all 152,880 "
             "chains <= 6 + 3,000 long ones) is validated by TLC: printed set = Spellings(Fold(chain)).",
        note=TB,
        technique="TLA+ mechanism model refined to a what-level model (TLC exhaustive) + TLC trace validation of real CLI runs and of "
                  "op.KeyConversionChain in-process for every chain up to length 5 (quick) / 6 (thorough)"),
    "C15": dict(
        text="TheoryMC: textbook Size equals an independent scale-walk formulation and Parse(Print(iv)) = iv for n <= 64 x 7 qualities. Every interval "
             "notation (6 marks x n) x 21 roots x 2 preferences through the real `info attr describe`, all notation strings up to the bound through "
             "`info attr list`, `gen attr` validity/completeness, `info chord describe` for 21 roots x 23 symbols: each record judged by TLC.",
        note=TB,
        technique="TLA+ oracle (Theory.tla, model-checked for self-consistency) + TLC validation of records observed from the real CLI"),
    "C17": dict(
        text="TheoryMC: stacking thirds on every degree of every key yields the stated quality lists and stays inside the scale. All 28 x 14 chords "
             "printed by `info key describe` go through the real pipeline (text conv syllable --key K | write --key K); TLC checks root, quality "
             "and sounded pitch classes of each.",
        note=TB,
        technique="TLA+ oracle (Harmonise in Theory.tla) + TLC validation of whole-pipeline observations, exhaustive"),
    "C01": dict(
        text="Piece.tla/Theory.tla give the bag of keys every chord must sound (60 + tonic of the key in force + degree, tones of the symbol, bass an octave "
             "down). Table part: 28 keys x all 90 degree notations x symbols / bass notations (thorough: all 46 names and displays, all 90 basses = 342,720 "
             "chords); history part: seeded documents with key changes anywhere, +/- --key. Every chord the real `crd write` sounded (SMF bytes, decoded by the "
             "independent reader) is compared by TLC, grouping note-ons by file order so the verdict does not depend on timing.",
        note=TB,
        technique="TLA+ what-layer (Piece.tla) + how-layer (Play.tla, model-checked = Meaning(doc)) + TLC validation of events decoded from the "
                  "real CLI's SMF output and of call traces of the real play package"),
    "C02": dict(
        text="Exact rational arithmetic in Piece.tla (round(T*v), either neighbour at an exact half): every chord's strikes at Start(i), releases at Start(i+1), "
             "rests silent, first instance at 0, release-before-strike per track. Bounded-exhaustive sequences over 15 instance kinds (length <= 2 quick, <= 3 "
             "thorough) + seeded long sequences, each through the real `crd write`; durations at, above and far above what a delta time holds (2^28-1 "
             "ticks) are written right or refused (WriterSat.tla: machine arithmetic of the writer, model-checked and trace-validated).",
        note=TB + "; float64 vs rational can only differ within 1e-13 of a half tick, generators stay >= 1/128 tick away except the dedicated exact-half cases",
        technique="TLA+ what-layer (Piece.tla timeline) + how-layer (Writer.tla) + TLC validation of decoded SMF ticks (bounded-exhaustive + seeded) "
                  "and of step-level traces of the real midix writer"),
    "C06": dict(
        text="Writer.tla models the writer's time bookkeeping (pending delta, per-track pending delay, TrackSet.Add as the primitive); TLC checks ClockInv, "
             "EOTInv and refinement of the single timeline for all call sequences <= L on N = 1..5 tracks, and finds the design-level counterexamples of "
             "the two named deviations (shared op, dropped trailing rest). Step-level traces of the real midix package (state read through verif hooks after "
             "every call) are validated against the same actions, with a corrupted-trace self-test. "
             "For each generated document the real binary is run with --track N and --track 1; TLC requires equal merged bags of (tick, event) and every "
             "track's end-of-track at Total(document) (trailing rests included). N in {2,3,4,7} quick, {2,3,4,5,8,16,32} thorough, plus 1027 / 2050. "
             "WriterSat.tla: the same bookkeeping in machine words (saturating sums, refusal of a delta above 2^28-1), model-checked with its deviation "
             "(wrapping sums) and bound to the real writer by traces in 2^26-tick units; at the CLI: pieces at, above and far above the limit are written "
             "right or refused.",
        note=TB,
        technique="TLA+ mechanism model (Writer.tla, exhaustive for N=1..5) refined to the timeline + TLC validation of step-level traces of the real "
                  "midix writer (verif hooks) and of N-track vs 1-track CLI observations"),
    "C07": dict(
        text="Demands(document, flags) in Piece.tla lists the control events a document requires (tempo/meter/key at instance 1 always, later only explicit "
             "settings, txt/lic/mrk); TLC requires exactly those, at Start(i), with us/quarter = 60e6/bpm (either neighbour), nn/2^dd, sf/mi by "
             "circle-of-fifths arithmetic, UTF-8 payload bytes, and velocity persistence / strict loudness order. All 28 keys, 6 dynamics, seeded flag subsets.",
        note=TB + "; bpm drawn from 4..60,000,000 and meter denominators from powers of two <= 128 (outside, SMF cannot carry the written value); "
             "numerators / denominators above 255 must be refused (MeterFits), never wrapped",
        technique="TLA+ what-layer (Piece.tla Demands) + how-layer (Play.tla Opt cells, model-checked) + TLC validation of decoded SMF meta events "
                  "of the real CLI and of call traces of the real play package"),
    "C08": dict(
        text="SMF.tla is a byte-level recogniser written from the SMF 1.0 specification: one TLC state per byte of every file the real `crd write` produced "
             "(seeded documents x track counts x --program x --instrument, stdout and -o), checking header, format/ntrks, chunk lengths, VLQs, running status, "
             "data bytes, meta lengths, exactly one final end-of-track per chunk, note-on/off balance, tempo/time/key signature only in the first chunk; its "
             "decoded event list must equal the harness reader's. SMFSanity: hand-built files and 33 corruption classes get the labelled verdicts. "
             "WriterSat.tla (machine arithmetic of the writer: a delta above 2^28-1 ticks is refused, never written as a 5-byte quantity) is model-checked "
             "and bound to the real writer by in-process traces.",
        note="TLC, SMF.tla; note balance is checked per track (crd keeps a note's on and off on one track)",
        technique="TLA+ byte-level recogniser as trace specification; TLC validates the raw bytes written by the real CLI"),
    "C16": dict(
        text="Dict.tla states the dictionary: load-ordered definitions (built-ins, then user files), later wins per name and per display, parent-first "
             "transitive resolution, accepted iff every entry is named, no dangling attribute/extends, acyclic. Every enumerated user dictionary (pool of "
             "entries x attribute-file variants; all one-entry and - thorough - all two-entry dictionaries incl. every cycle shape) is loaded by the real "
             "binary and each user name/display played; built-ins: attr list = gen attr, English names (also where used: one user chord per built-in attribute, played), every chord by name and display.",
        note=TB + "; combinations where a user override would change a built-in that inherits from it are not generated (the property is silent)",
        technique="TLA+ dictionary model (Dict.tla) + TLC validation of real CLI runs over an enumerated dictionary space"),
    "C04": dict(
        text="Grammar.tla derives all sentences <= L tokens from the productions extracted at check time from the working tree's chords.y (unambiguity "
             "checked); ChordLangMC: the hand-written recogniser agrees with the grammar on all token strings <= N and all single-token mutations of "
             "sentences; LexerMC: progress, termination, nothing-dropped and mode discipline for all inputs <= K runes. Binding: every sentence rendered with "
             "seeded trivia, concatenations (long pieces), every proper prefix, token mutations, and ALL strings over 20 runes up to n (3 quick / 4 thorough) "
             "go through the real `crd text parse` under a watchdog; TLC requires accepted iff Lexer o ChordLang accept, tree equal, refusal = error. "
             "In-process: ALL token strings <= 4/5 and every single-token mutation of every sentence injected into the shipped LALR tables (TokenTrace); "
             "the real lexer validated token by token incl. source spans and mode flags (LexerTrace, verif hooks; mechanism drift, not a verdict).",
        note=TB + "; 'the parser shipped is the one goyacc generates' is decided behaviourally up to the bound (TokenTrace) and literally: the pinned "
             "goyacc is re-run on the working tree's chords.y and the Go token sequences of shipped and regenerated parser are compared (plain equality)",
        technique="TLA+ grammar/lexer specification, TLC-generated sentences replayed into the real CLI, TLC validation of every outcome"),
    "C05": dict(
        text="Conv.tla models the converter as a fold carrying the current key (change applied before the carrying chord). Each seeded progression is "
             "rendered as degree text and as note-name text per start key; the spec first re-derives that the renderings denote the same progression "
             "(otherwise: bad test input, exit 2), then real `text conv degree|syllable --key K` outputs must equal that meaning and each other byte for "
             "byte; refusals only outside C03's guarantee. Second half: `write --key K1` vs `--key K2` differ by the tonic distance on every pitch only.",
        note=TB + "; note names can only express simple intervals, so progressions use degrees 1..7",
        technique="TLA+ converter model (Conv.tla) + TLC validation of metamorphic observations of the real CLI"),
    "C11": dict(
        text="Lexer.tla defines the abstract token sequence (NUMBER by value, SHARP/FLAT by kind, optional `_` dropped). For each (canonical text, "
             "variant) pair - trivia at seeded gaps, `_`, leading zeros, Unicode accidentals - TLC first re-derives that the pair is a variant pair, then "
             "requires byte-identical `text conv` output, equal success, and the meaning Conv.tla computes (an accepted accidental is honoured).",
        note=TB,
        technique="TLA+ lexer/converter specification + TLC validation of variant pairs run through the real CLI"),
    "C09": dict(
        category="model_checking",
        text="Runs.tla states the outcome protocol (terminates, no panic/fatal/signal, success xor non-zero exit + diagnostic + empty stdout) and the "
             "nonsense x delivery channel x interpreting stage matrix (RunsMC enumerates it; the driver's cells must cover every live cell); LexerMC proves "
             "every scan loop of the lexer model ends at end of input. Every run of the real binary is judged by TLC: all matrix cells with several concrete "
             "renderings, and seeded byte-level exploration (truncation of valid inputs at every offset, mutations, random bytes, invalid UTF-8, over-long "
             "inputs, stdin and FILE, flag values incl. every note / key spelling with mixed accidental marks, broken dictionary files) under a watchdog. The arbitrary-bytes part is exploration, not exhaustive.",
        note=TB + "; a hang is only reported after the run also failed to return alone with a 40 s watchdog",
        technique="TLA+ outcome protocol + matrix (Runs.tla) as trace specification; TLC validates every real CLI run"),
    "C10": dict(
        text="The YAML hop is the identity on abstract instances: for seeded valid texts, `text conv | write` must play exactly the piece Piece.tla assigns "
             "to the instances Conv.tla computes from the text (C01/C02/C07 predicates reused); every value of every scalar field (384 interval notations "
             "as degree and base, 28 keys, 456 fractions/meters, 6 dynamics, bpm) survives `write parse`; `write conv -c cmt | write` = `write` plus one "
             "text event per chord. TheoryMC gives Parse(Print(x)) = x on the model side.",
        note=TB,
        technique="TLA+ composition Conv.tla -> Piece.tla as oracle; TLC validates both real stages end to end"),
    "C12": dict(
        text="IterVisitor.tla (PlusCal) models the only concurrency in crd - producer goroutine, bounded channel, consumer with early exit and drain - and "
             "TLC explores every interleaving (trees of 6 nodes, capacity 1..2, stop at any node or never): document order, exact prefix, no leaked "
             "producer, termination. Every data-producing command is run k times (8 quick / 40 thorough) across GOMAXPROCS 1/2/4/16, --debug, stdin/-/FILE, "
             "stdout/-o onto a fresh and onto an existing longer file (thorough: -race build too); TLC requires one (success, sha-256) per "
             "request class, and --debug runs equal to plain runs. Interleavings written by TLC's simulator for the model (free, and with the producer "
             "filling the channel of 100 first) are replayed on the real iterator through a gate hook, the abstract state compared after every action; a "
             "probe checks that a send on a full channel does not go through.",
        note=TB + "; a 2-way order flip escapes k repetitions with probability 2^-(k-1)",
        technique="PlusCal model of the iterator (exhaustive interleavings), TLC-simulated behaviours replayed on the real iterator (scheduler gate), "
                  "its properties checked on the real iterator in-process, + TLC validation of repeated-run histories of the real CLI across CPU counts, "
                  "--debug and I/O paths"),
}
