HOOKS = {
    "guard": "verif",
    "enable": "go build -tags verif (every ./check run builds /repo/cmd with the tag on)",
    "baseline_off_cmd": "cd /repo && GOFLAGS=-mod=mod GOPROXY=off go test -vet=off -count=1 ./...",
    "source_commits": [],
    "add_only": True,
}
NOTES = ("Every check rebuilds the crd binary from /repo's working tree into a scratch directory, runs the TLA+ models with TLC, "
         "runs the drivers against that binary and lets TLC validate every record. exit 0 ok / 1 VIOLATION / 2 undecided (infrastructure).")
NOT_APPLICABLE = {}
TB = "TLC, the TLA+ modules in spec/, the harness projections (YAML->records; SMF bytes->events, re-derived by SMF.tla in C08)"
CHECKS = {
    "C13": dict(
        text="Exhaustive over the property's own finite domain: all 42 key spellings through the real binary (`info key list`, `info key describe`), "
             "each observation judged by TLC against Theory.tla (signature by circle-of-fifths arithmetic, scale by signature); the theory itself is "
             "model-checked (two independent scale definitions agree, step patterns, relative pairs).",
        note=TB,
        technique="TLA+ oracle (Theory.tla) + TLC validation of records observed from the real CLI, exhaustive"),
}
