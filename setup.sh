#!/bin/sh
# Offline setup: nothing is fetched. Warms the Go build cache for the harness and checks the tools.
set -e
cd "$(dirname "$0")"
export GOFLAGS=-mod=mod GOPROXY=off
unset GOTOOLCHAIN GOSUMDB || true
command -v java >/dev/null
test -f /opt/veriftools/tla/tla2tools.jar
tmp=$(mktemp -d)
trap 'rm -rf "$tmp"' EXIT
cp -r harness "$tmp/harness"
cp /repo/go.sum "$tmp/harness/go.sum"
(cd "$tmp/harness" && go build -o "$tmp/vdrive" ./cmd/vdrive)
echo setup ok
